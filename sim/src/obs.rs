//! Observations: what one API call returned, in an owned, comparable,
//! serialisable form, together with the harness's own count of bytes pulled
//! from the source at that instant (the step clock).

use serde::{Deserialize, Serialize};
use sml_rs::transport::DecodeErr;
use std::hash::{Hash, Hasher};

#[derive(Clone, PartialEq, Eq, Debug, Serialize, Deserialize, Hash)]
pub enum DErr {
    Discarded(usize),
    InvalidEsc([u8; 4]),
    Oom,
    InvalidMsg {
        read_crc: u16,
        calc_crc: u16,
        misaligned: bool,
        pad: u8,
        invalid_pad: bool,
    },
}

impl From<&DecodeErr> for DErr {
    fn from(e: &DecodeErr) -> Self {
        match e {
            DecodeErr::DiscardedBytes(n) => DErr::Discarded(*n),
            DecodeErr::InvalidEsc(p) => DErr::InvalidEsc(*p),
            DecodeErr::OutOfMemory => DErr::Oom,
            DecodeErr::InvalidMessage {
                checksum_mismatch,
                end_esc_misaligned,
                num_padding_bytes,
                invalid_padding_bytes,
            } => DErr::InvalidMsg {
                read_crc: checksum_mismatch.0,
                calc_crc: checksum_mismatch.1,
                misaligned: *end_esc_misaligned,
                pad: *num_padding_bytes,
                invalid_pad: *invalid_padding_bytes,
            },
        }
    }
}

impl DErr {
    pub fn variant(&self) -> &'static str {
        match self {
            DErr::Discarded(_) => "Discarded",
            DErr::InvalidEsc(_) => "InvalidEsc",
            DErr::Oom => "Oom",
            DErr::InvalidMsg { .. } => "InvalidMsg",
        }
    }
    /// errors after which the decoder documents itself as reset (a boundary)
    pub fn is_rejecting(&self) -> bool {
        !matches!(self, DErr::Discarded(_))
    }
}

#[derive(Clone, PartialEq, Eq, Debug, Serialize, Deserialize, Hash)]
pub enum IoKind {
    Eof,
    WouldBlock,
    /// io::ErrorKind debug name, or embedded-hal error code
    Other(String),
}

/// parse error, reduced to what the properties talk about: the variant and
/// (for InvalidTlf) the inner variant. The `&'static str` of TlfMismatch is a
/// type_name and explicitly unstable; it is kept only for display.
#[derive(Clone, Debug, Serialize, Deserialize)]
pub struct PErr {
    pub variant: String,
    pub info: String,
}
impl PartialEq for PErr {
    fn eq(&self, o: &Self) -> bool {
        self.variant == o.variant
    }
}
impl Eq for PErr {}
impl Hash for PErr {
    fn hash<H: Hasher>(&self, h: &mut H) {
        self.variant.hash(h)
    }
}

impl From<&sml_rs::parser::ParseError> for PErr {
    fn from(e: &sml_rs::parser::ParseError) -> Self {
        use sml_rs::parser::ParseError as P;
        let variant = match e {
            P::LeftoverInput => "LeftoverInput".to_string(),
            P::UnexpectedEOF => "UnexpectedEOF".to_string(),
            P::InvalidTlf(t) => format!("InvalidTlf({:?})", t),
            P::TlfMismatch(_) => "TlfMismatch".to_string(),
            P::CrcMismatch => "CrcMismatch".to_string(),
            P::MsgEndMismatch => "MsgEndMismatch".to_string(),
            P::UnexpectedVariant => "UnexpectedVariant".to_string(),
        };
        PErr {
            variant,
            info: format!("{:?}", e),
        }
    }
}

#[derive(Clone, PartialEq, Eq, Debug, Serialize, Deserialize, Hash)]
pub enum Item {
    /// push_byte returned Ok(None)
    Nothing,
    /// a payload was delivered
    Msg(#[serde(with = "crate::hexbytes")] Vec<u8>),
    /// decode error
    Dec(DErr),
    /// ReadDecodedError::IoErr(kind, n)
    Io(IoKind, usize),
    /// nb::Error::WouldBlock
    NbWouldBlock,
    /// `None` from an iterator-like call (next / next_nb Ok(None))
    End,
    /// finalize() returned None
    FinNone,
    /// finalize() returned Some(e)
    Fin(DErr),
    /// reset() returned n
    Reset(usize),
    /// usability probe: empty string = the probe frame was delivered exactly
    Probe(String),
    /// a parsed file (reader target `File`), as a reference tree
    File(crate::smlref::RFile),
    /// parser error (reader target `File`)
    Parse(PErr),
    /// events of a `Parser` target, reassembled, plus the error that ended them
    Events(crate::smlref::RFile, Option<PErr>, bool),
}

impl Item {
    pub fn short(&self) -> String {
        match self {
            Item::Msg(m) => {
                if m.len() <= 24 {
                    format!("Ok({})", crate::hexbytes::hex(m))
                } else {
                    format!(
                        "Ok({}..{}B)",
                        crate::hexbytes::hex(&m[..12]),
                        m.len()
                    )
                }
            }
            Item::File(f) => format!("File({} msgs)", f.msgs.len()),
            Item::Events(f, e, _) => format!("Events({} msgs, {:?})", f.msgs.len(), e.as_ref().map(|e| &e.variant)),
            other => format!("{:?}", other),
        }
    }
}

#[derive(Clone, PartialEq, Eq, Debug, Serialize, Deserialize, Hash)]
pub struct Obs {
    /// bytes pulled from the source so far (usize::MAX when the front-end hides it)
    pub pos: usize,
    pub item: Item,
}

pub fn show_hist(h: &[Obs]) -> String {
    let mut s = String::new();
    let n = h.len();
    for (i, o) in h.iter().enumerate() {
        if n > 40 && i >= 20 && i < n - 20 {
            if i == 20 {
                s.push_str(&format!(" ...({} more)...", n - 40));
            }
            continue;
        }
        if o.pos == usize::MAX {
            s.push_str(&format!(" {}", o.item.short()));
        } else {
            s.push_str(&format!(" @{}:{}", o.pos, o.item.short()));
        }
    }
    s
}

/// deterministic 64-bit hash (SipHash with zero keys; no RandomState anywhere)
pub fn hash_of<T: Hash>(t: &T) -> u64 {
    #[allow(deprecated)]
    let mut h = std::hash::SipHasher::new();
    t.hash(&mut h);
    h.finish()
}
