//! Scenario IR: pure data produced by the generator (or by the minimiser, or
//! read from a replay file) and interpreted by a property's `exec`.

use crate::fe::{BufKind, Call, Fe, PushOp, SrcFault};
use crate::hexbytes::Hx;
use crate::refenc::{refenc, refenc_regions, Region};
use serde::{Deserialize, Serialize};
use std::collections::BTreeMap;

#[derive(Clone, Copy, PartialEq, Eq, Debug, Serialize, Deserialize, Hash)]
pub enum Enc {
    /// sml_rs::transport::encode::<Vec<u8>>
    Buf,
    /// sml_rs::transport::encode_streaming
    Iter,
    /// the reference encoder (used when the frame is only a carrier for link faults)
    Ref,
}

#[derive(Clone, PartialEq, Eq, Debug, Serialize, Deserialize, Hash)]
pub enum WireFault {
    Flip { at: usize, bit: u8 },
    Set { at: usize, val: u8 },
    Del { at: usize },
    Dup { at: usize },
    Ins { at: usize, val: u8 },
    /// replay of an earlier slice: bytes [from, from+len) inserted again at `to`
    DupChunk { from: usize, len: usize, to: usize },
    /// swap the adjacent chunks [at, at+len) and [at+len, at+2len)
    Swap { at: usize, len: usize },
}

impl WireFault {
    pub fn name(&self) -> &'static str {
        match self {
            WireFault::Flip { .. } => "bitflip",
            WireFault::Set { .. } => "overwrite",
            WireFault::Del { .. } => "loss",
            WireFault::Dup { .. } => "dup",
            WireFault::Ins { .. } => "insert",
            WireFault::DupChunk { .. } => "chunk-replay",
            WireFault::Swap { .. } => "reorder",
        }
    }
    pub fn at(&self) -> usize {
        match self {
            WireFault::Flip { at, .. }
            | WireFault::Set { at, .. }
            | WireFault::Del { at }
            | WireFault::Dup { at }
            | WireFault::Ins { at, .. }
            | WireFault::Swap { at, .. } => *at,
            WireFault::DupChunk { to, .. } => *to,
        }
    }
    /// apply to `v`; returns whether the bytes actually changed
    pub fn apply(&self, v: &mut Vec<u8>) -> bool {
        if v.is_empty() {
            return false;
        }
        let n = v.len();
        match *self {
            WireFault::Flip { at, bit } => {
                v[at % n] ^= 1 << (bit % 8);
                true
            }
            WireFault::Set { at, val } => {
                let old = v[at % n];
                v[at % n] = val;
                old != val
            }
            WireFault::Del { at } => {
                v.remove(at % n);
                true
            }
            WireFault::Dup { at } => {
                let b = v[at % n];
                v.insert(at % n, b);
                true
            }
            WireFault::Ins { at, val } => {
                v.insert(at % (n + 1), val);
                true
            }
            WireFault::DupChunk { from, len, to } => {
                let from = from % n;
                let len = len.min(n - from);
                let chunk: Vec<u8> = v[from..from + len].to_vec();
                let to = to % (n + 1);
                for (i, b) in chunk.iter().enumerate() {
                    v.insert(to + i, *b);
                }
                len > 0
            }
            WireFault::Swap { at, len } => {
                let at = at % n;
                let len = len.min((n - at) / 2);
                if len == 0 {
                    return false;
                }
                let a: Vec<u8> = v[at..at + len].to_vec();
                let b: Vec<u8> = v[at + len..at + 2 * len].to_vec();
                v[at..at + len].copy_from_slice(&b);
                v[at + len..at + 2 * len].copy_from_slice(&a);
                a != b
            }
        }
    }
}

#[derive(Clone, PartialEq, Eq, Debug, Serialize, Deserialize, Hash)]
pub enum Seg {
    /// a frame of `payload`, produced by `enc`, then damaged by `faults`
    Frame {
        payload: Hx,
        enc: Enc,
        faults: Vec<WireFault>,
    },
    /// inter-frame noise for which the C08 side condition holds (checked again at run time)
    Noise(Hx),
    /// arbitrary bytes; no promise attached
    Raw(Hx),
    /// the first `cut` bytes of the frame of `payload` (sender crashed)
    Cut { payload: Hx, cut: usize },
}

#[derive(Clone, PartialEq, Eq, Debug, Serialize, Deserialize, Hash)]
pub struct LinkScn {
    pub prop: String,
    /// sub-configuration label (which workload / fault mix produced it)
    pub sub: String,
    pub fe: Fe,
    pub buf: BufKind,
    pub segs: Vec<Seg>,
    /// source faults: (stream position before which they fire, fault)
    pub src: Vec<(usize, SrcFault)>,
    /// push decoder only: finalize / reset before the byte at the position
    pub ops: Vec<(usize, PushOp)>,
    /// reader front-ends: cyclic call list
    pub calls: Vec<Call>,
    pub extra_polls: usize,
    /// fail the n-th allocation inside transport calls (0 = never)
    pub alloc_fail: u64,
    /// free-form integer knobs interpreted by the property
    pub knobs: BTreeMap<String, i64>,
}

impl LinkScn {
    pub fn new(prop: &str, sub: &str, fe: Fe, buf: BufKind) -> LinkScn {
        LinkScn {
            prop: prop.into(),
            sub: sub.into(),
            fe,
            buf,
            segs: Vec::new(),
            src: Vec::new(),
            ops: Vec::new(),
            calls: vec![Call::NEXT_BYTES],
            extra_polls: 0,
            alloc_fail: 0,
            knobs: BTreeMap::new(),
        }
    }
    pub fn knob(&self, k: &str) -> i64 {
        self.knobs.get(k).copied().unwrap_or(0)
    }
}

/// what a segment contributed to the stream
#[derive(Clone, Debug)]
pub struct SegInfo {
    pub start: usize,
    pub end: usize,
    /// a frame without any effective wire fault
    pub intact_payload: Option<Vec<u8>>,
    pub faults_fired: usize,
}

pub struct Built {
    pub stream: Vec<u8>,
    pub segs: Vec<SegInfo>,
    /// (fault kind, region name) of every wire fault that changed bytes
    pub fired: Vec<(&'static str, &'static str)>,
}

thread_local! {
    /// set by the properties that are *about* the encoders (C01): there a panicking encoder is
    /// the violation.  Everywhere else the encoders only build the stimulus, and a frame is what
    /// the specification says it is.
    pub static STRICT_ENCODER: std::cell::Cell<bool> = const { std::cell::Cell::new(false) };
}

/// frame a payload with the real encoders (or the reference one)
pub fn frame_with(enc: Enc, payload: &[u8]) -> Vec<u8> {
    let real = || match enc {
        Enc::Buf => sml_rs::transport::encode::<Vec<u8>>(payload).unwrap_or_else(|_| refenc(payload)),
        Enc::Iter => {
            // bounded: an encoder that never ends must not take the generator with it
            let cap = payload.len() * 2 + 64;
            sml_rs::transport::encode_streaming(payload).take(cap).collect()
        }
        Enc::Ref => refenc(payload),
    };
    if enc == Enc::Ref || STRICT_ENCODER.with(|c| c.get()) {
        return real();
    }
    match crate::runner::catch(real) {
        Ok(f) => f,
        // the encoder panicked while building a stimulus: that is C05 / C07 / C01's finding; this
        // run goes on with the frame the specification defines
        Err(_) => refenc(payload),
    }
}

pub fn build_stream(segs: &[Seg]) -> Built {
    let mut stream = Vec::new();
    let mut infos = Vec::new();
    let mut fired = Vec::new();
    for s in segs {
        let start = stream.len();
        let mut intact = None;
        let mut nf = 0;
        match s {
            Seg::Frame {
                payload,
                enc,
                faults,
            } => {
                let mut f = frame_with(*enc, payload);
                if faults.is_empty() {
                    intact = Some(payload.0.clone());
                } else {
                    let (rf, regions) = refenc_regions(payload);
                    let same_layout = rf.len() == f.len();
                    for w in faults {
                        let at = if f.is_empty() { 0 } else { w.at() % f.len() };
                        let reg: &'static str = if same_layout && nf == 0 {
                            regions.get(at).map(Region::name).unwrap_or("?")
                        } else {
                            "shifted"
                        };
                        if w.apply(&mut f) {
                            nf += 1;
                            fired.push((w.name(), reg));
                        }
                    }
                    if nf == 0 {
                        intact = Some(payload.0.clone());
                    }
                }
                stream.extend_from_slice(&f);
            }
            Seg::Noise(b) | Seg::Raw(b) => stream.extend_from_slice(b),
            Seg::Cut { payload, cut } => {
                let f = refenc(payload);
                let c = (*cut).min(f.len());
                stream.extend_from_slice(&f[..c]);
            }
        }
        infos.push(SegInfo {
            start,
            end: stream.len(),
            intact_payload: intact,
            faults_fired: nf,
        });
    }
    Built {
        stream,
        segs: infos,
        fired,
    }
}

// ---------------------------------------------------------------------------
// FILE engine
// ---------------------------------------------------------------------------

#[derive(Clone, PartialEq, Eq, Debug, Serialize, Deserialize, Hash)]
pub enum Seal {
    /// `63 hi lo 00` with the correct CRC
    Good,
    /// `62 xx 00` if the CRC allows a one-byte field, else as Good
    GoodShort,
    /// correct CRC xor the given non-zero value
    BadCrc(u16),
    /// correct CRC, end marker replaced
    WrongEnd(u8),
    /// correct CRC, no end marker
    NoEnd,
    /// nothing appended
    None,
    /// one-byte CRC field holding only the low (0) or high (1) byte of a CRC that needs two
    TruncCrc(u8),
    /// two faults in one trailer: wrong CRC and wrong end marker
    BadCrcWrongEnd(u16, u8),
}

#[derive(Clone, PartialEq, Eq, Debug, Serialize, Deserialize, Hash)]
pub struct MsgScn {
    /// message bytes up to (excluding) the CRC field, after structural mutation
    pub body: Hx,
    pub seal: Seal,
}

#[derive(Clone, PartialEq, Eq, Debug, Serialize, Deserialize, Hash)]
pub enum ByteOp {
    Flip { at: usize, bit: u8 },
    Set { at: usize, val: u8 },
    Truncate { at: usize },
    Append(Hx),
    Delete { at: usize, len: usize },
    Insert { at: usize, bytes: Hx },
    /// `count` repetitions of `pattern` inserted at `at` (None: appended)
    Run { at: Option<usize>, pattern: Hx, count: usize },
}

impl ByteOp {
    pub fn name(&self) -> &'static str {
        match self {
            ByteOp::Flip { .. } => "bitflip",
            ByteOp::Set { .. } => "overwrite",
            ByteOp::Truncate { .. } => "truncate",
            ByteOp::Append(_) => "extend",
            ByteOp::Delete { .. } => "delete",
            ByteOp::Insert { .. } => "insert",
            ByteOp::Run { .. } => "long-run",
        }
    }
    pub fn apply(&self, v: &mut Vec<u8>) -> bool {
        match self {
            ByteOp::Flip { at, bit } => {
                if v.is_empty() {
                    return false;
                }
                let n = v.len();
                v[at % n] ^= 1 << (bit % 8);
                true
            }
            ByteOp::Set { at, val } => {
                if v.is_empty() {
                    return false;
                }
                let n = v.len();
                let old = v[at % n];
                v[at % n] = *val;
                old != *val
            }
            ByteOp::Truncate { at } => {
                if *at < v.len() {
                    v.truncate(*at);
                    true
                } else {
                    false
                }
            }
            ByteOp::Append(b) => {
                v.extend_from_slice(b);
                !b.is_empty()
            }
            ByteOp::Delete { at, len } => {
                if v.is_empty() {
                    return false;
                }
                let at = at % v.len();
                let len = (*len).min(v.len() - at);
                v.drain(at..at + len);
                len > 0
            }
            ByteOp::Insert { at, bytes } => {
                let at = at % (v.len() + 1);
                for (i, b) in bytes.iter().enumerate() {
                    v.insert(at + i, *b);
                }
                !bytes.is_empty()
            }
            ByteOp::Run { at, pattern, count } => {
                let at = match at {
                    Some(a) => a % (v.len() + 1),
                    None => v.len(),
                };
                let mut run = Vec::with_capacity(pattern.len() * count);
                for _ in 0..*count {
                    run.extend_from_slice(pattern);
                }
                let n = run.len();
                v.splice(at..at, run);
                n > 0
            }
        }
    }
}

#[derive(Clone, PartialEq, Eq, Debug, Serialize, Deserialize, Hash)]
pub struct FileScn {
    pub prop: String,
    pub sub: String,
    pub msgs: Vec<MsgScn>,
    /// byte-level operations applied after sealing (no re-seal)
    pub post: Vec<ByteOp>,
    pub extra_polls: usize,
    /// structural (pre-seal, hence re-sealed) mutations that produced `msgs`, for the record
    pub notes: Vec<String>,
}

pub fn seal_msg(m: &MsgScn) -> Vec<u8> {
    let mut v = m.body.0.clone();
    let crc = crate::refenc::crc16_x25(&v).swap_bytes();
    let put = |v: &mut Vec<u8>, crc: u16, short: bool| {
        if short && crc < 0x100 {
            v.push(0x62);
            v.push(crc as u8);
        } else {
            v.push(0x63);
            v.push((crc >> 8) as u8);
            v.push((crc & 0xff) as u8);
        }
    };
    match m.seal {
        Seal::Good => {
            put(&mut v, crc, false);
            v.push(0);
        }
        Seal::GoodShort => {
            put(&mut v, crc, true);
            v.push(0);
        }
        Seal::BadCrc(x) => {
            put(&mut v, crc ^ if x == 0 { 1 } else { x }, false);
            v.push(0);
        }
        Seal::WrongEnd(e) => {
            put(&mut v, crc, false);
            v.push(e);
        }
        Seal::NoEnd => put(&mut v, crc, false),
        Seal::None => {}
        Seal::BadCrcWrongEnd(x, e) => {
            put(&mut v, crc ^ if x == 0 { 1 } else { x }, false);
            v.push(e);
        }
        Seal::TruncCrc(which) => {
            v.push(0x62);
            v.push(if which % 2 == 0 { (crc & 0xff) as u8 } else { (crc >> 8) as u8 });
            v.push(0);
        }
    }
    v
}

impl FileScn {
    pub fn bytes(&self) -> Vec<u8> {
        let mut v = Vec::new();
        for m in &self.msgs {
            v.extend_from_slice(&seal_msg(m));
        }
        for op in &self.post {
            op.apply(&mut v);
        }
        v
    }
}

// ---------------------------------------------------------------------------
// BUF engine
// ---------------------------------------------------------------------------

#[derive(Clone, PartialEq, Eq, Debug, Serialize, Deserialize, Hash)]
pub enum BufOp {
    Push(u8),
    Extend(Hx),
    Truncate(usize),
    Clear,
    /// replace the buffer by `from_iter` of these bytes (at most N)
    FromIter(Hx),
}

#[derive(Clone, PartialEq, Eq, Debug, Serialize, Deserialize, Hash)]
pub struct BufScn {
    pub prop: String,
    pub sub: String,
    /// capacity; usize::MAX = Vec<u8>
    pub n: usize,
    pub ops: Vec<BufOp>,
    /// ops of a second buffer (compared with the first after every step)
    pub ops_b: Vec<BufOp>,
    /// Vec<u8> only: fail the k-th allocation
    pub alloc_fail: u64,
}

#[derive(Clone, PartialEq, Eq, Debug, Serialize, Deserialize, Hash)]
pub enum Scenario {
    Link(LinkScn),
    File(FileScn),
    Buf(BufScn),
}

impl Scenario {
    pub fn prop(&self) -> &str {
        match self {
            Scenario::Link(l) => &l.prop,
            Scenario::File(f) => &f.prop,
            Scenario::Buf(b) => &b.prop,
        }
    }
    pub fn sub(&self) -> &str {
        match self {
            Scenario::Link(l) => &l.sub,
            Scenario::File(f) => &f.sub,
            Scenario::Buf(b) => &b.sub,
        }
    }
}
