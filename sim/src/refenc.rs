//! Reference models for the transport layer, written from the specification
//! text only (no code shared with sml-rs, not even the `crc` crate).

pub const START: [u8; 8] = [0x1b, 0x1b, 0x1b, 0x1b, 0x01, 0x01, 0x01, 0x01];

/// CRC-16/X.25 (IBM-SDLC): poly 0x1021 reflected = 0x8408, init 0xFFFF, xorout 0xFFFF.
pub fn crc16_x25(data: &[u8]) -> u16 {
    let mut crc: u16 = 0xFFFF;
    for &b in data {
        crc ^= u16::from(b);
        for _ in 0..8 {
            if crc & 1 != 0 {
                crc = (crc >> 1) ^ 0x8408;
            } else {
                crc >>= 1;
            }
        }
    }
    !crc
}

#[derive(Clone, Copy, Debug, PartialEq, Eq)]
pub enum Region {
    Start(u8),
    Data,
    Run1b(u8),      // data byte 0x1b, k-th of its run (1-based, mod 4 resets after an inserted escape)
    LiteralEsc(u8), // k-th byte of an inserted 1b1b1b1b
    ZeroTail(u8),   // zero data byte belonging to the trailing zero run of the payload
    Pad(u8),
    End1b(u8),
    End1a,
    EndPad,
    EndCrc(u8),
}

impl Region {
    pub fn name(&self) -> &'static str {
        match self {
            Region::Start(_) => "START",
            Region::Data => "DATA",
            Region::Run1b(_) => "1B-RUN",
            Region::LiteralEsc(_) => "LITERAL-ESC",
            Region::ZeroTail(_) => "ZERO-TAIL",
            Region::Pad(_) => "PAD",
            Region::End1b(_) => "END-1B",
            Region::End1a => "END-1A",
            Region::EndPad => "END-PAD",
            Region::EndCrc(_) => "END-CRC",
        }
    }
}

/// The Transport v1 frame of payload `p`, straight from the specification:
/// `1b1b1b1b 01010101`, p with `1b1b1b1b` inserted after every fourth
/// consecutive `1b`, zeros to a multiple of four, `1b1b1b1b 1a`, pad count,
/// CRC-16/X.25 of everything before it, little endian.
pub fn refenc(p: &[u8]) -> Vec<u8> {
    refenc_regions(p).0
}

pub fn refenc_regions(p: &[u8]) -> (Vec<u8>, Vec<Region>) {
    let mut out = Vec::with_capacity(p.len() + p.len() / 4 + 20);
    let mut reg = Vec::with_capacity(out.capacity());
    for (k, b) in START.iter().enumerate() {
        out.push(*b);
        reg.push(Region::Start(k as u8));
    }
    // trailing zero run of the payload
    let tail_zeros = p.iter().rev().take_while(|b| **b == 0).count();
    let mut run = 0u8;
    for (i, &b) in p.iter().enumerate() {
        out.push(b);
        if b == 0x1b {
            run += 1;
            reg.push(Region::Run1b(run));
        } else {
            run = 0;
            if b == 0 && i >= p.len() - tail_zeros {
                reg.push(Region::ZeroTail((i - (p.len() - tail_zeros)) as u8));
            } else {
                reg.push(Region::Data);
            }
        }
        if run == 4 {
            for k in 0..4 {
                out.push(0x1b);
                reg.push(Region::LiteralEsc(k));
            }
            run = 0;
        }
    }
    let pad = (4 - out.len() % 4) % 4;
    for k in 0..pad {
        out.push(0);
        reg.push(Region::Pad(k as u8));
    }
    for k in 0..4 {
        out.push(0x1b);
        reg.push(Region::End1b(k));
    }
    out.push(0x1a);
    reg.push(Region::End1a);
    out.push(pad as u8);
    reg.push(Region::EndPad);
    let crc = crc16_x25(&out);
    out.push((crc & 0xff) as u8);
    reg.push(Region::EndCrc(0));
    out.push((crc >> 8) as u8);
    reg.push(Region::EndCrc(1));
    (out, reg)
}

/// Does `hay` contain the start sequence at an offset other than `only_at`?
pub fn start_positions(hay: &[u8]) -> Vec<usize> {
    let mut v = Vec::new();
    if hay.len() < 8 {
        return v;
    }
    for i in 0..=hay.len() - 8 {
        if hay[i..i + 8] == START {
            v.push(i);
        }
    }
    v
}

/// the side condition of C08 / C10: `g ++ START` contains START only at offset |g|
pub fn noise_ok(g: &[u8]) -> bool {
    let mut v = g.to_vec();
    v.extend_from_slice(&START);
    start_positions(&v) == vec![g.len()]
}

/// Reference extraction of the canonical frames contained in a byte dump (used only to load
/// the corpus of real transmissions without going through the code under test).  Frames are
/// read in 4-byte words from each start sequence; anything that is not a canonical frame is
/// skipped.
pub fn ref_extract(bytes: &[u8]) -> Vec<Vec<u8>> {
    let mut out = Vec::new();
    let mut i = 0usize;
    'outer: while i + 16 <= bytes.len() {
        if bytes[i..i + 8] != START {
            i += 1;
            continue;
        }
        // candidate end sequences: `1b1b1b1b 1a` at a 4-byte aligned offset from the start
        let mut j = i + 8;
        while j + 8 <= bytes.len() {
            if bytes[j..j + 5] == [0x1b, 0x1b, 0x1b, 0x1b, 0x1a] {
                // undo the escaping of the body; whatever comes out is only accepted if the
                // reference encoder reproduces exactly these bytes
                let body = &bytes[i + 8..j];
                let mut data = Vec::with_capacity(body.len());
                let mut run = 0;
                let mut k = 0;
                while k < body.len() {
                    data.push(body[k]);
                    if body[k] == 0x1b {
                        run += 1;
                    } else {
                        run = 0;
                    }
                    k += 1;
                    if run == 4 {
                        if k + 4 <= body.len() && body[k..k + 4] == [0x1b; 4] {
                            k += 4;
                        }
                        run = 0;
                    }
                }
                let pad = bytes[j + 5] as usize;
                if pad <= 3 && pad <= data.len() && data[data.len() - pad..].iter().all(|b| *b == 0) {
                    data.truncate(data.len() - pad);
                    if refenc(&data)[..] == bytes[i..j + 8] {
                        out.push(data);
                        i = j + 8;
                        continue 'outer;
                    }
                }
            }
            j += 4;
        }
        i += 1;
    }
    out
}

/// start-up self test; any failure is a harness error (exit 2)
pub fn self_test() -> Result<(), String> {
    if crc16_x25(b"123456789") != 0x906E {
        return Err("crc16_x25 check value".into());
    }
    // the frame printed in the repo's docs
    let f = refenc(&[0x12, 0x34, 0x56, 0x78]);
    let exp = [
        0x1b, 0x1b, 0x1b, 0x1b, 0x01, 0x01, 0x01, 0x01, 0x12, 0x34, 0x56, 0x78, 0x1b, 0x1b, 0x1b,
        0x1b, 0x1a, 0x00, 0xb8, 0x7b,
    ];
    if f != exp {
        return Err(format!("refenc doc example: {:02x?}", f));
    }
    // spec examples with escape and padding
    let f = refenc(&[0x12, 0x1b, 0x1b, 0x1b, 0x1b]);
    let exp = [
        0x1b, 0x1b, 0x1b, 0x1b, 0x01, 0x01, 0x01, 0x01, 0x12, 0x1b, 0x1b, 0x1b, 0x1b, 0x1b, 0x1b,
        0x1b, 0x1b, 0x00, 0x00, 0x00, 0x1b, 0x1b, 0x1b, 0x1b, 0x1a, 0x03, 0xbe, 0x25,
    ];
    if f != exp {
        return Err(format!("refenc escape example: {:02x?}", f));
    }
    let f = refenc(&[]);
    let exp = [
        0x1b, 0x1b, 0x1b, 0x1b, 0x01, 0x01, 0x01, 0x01, 0x1b, 0x1b, 0x1b, 0x1b, 0x1a, 0x00, 0xc6,
        0xe5,
    ];
    if f != exp {
        return Err(format!("refenc empty example: {:02x?}", f));
    }
    {
        let a = refenc(&[1, 2, 3, 0x1b, 0x1b, 0x1b, 0x1b, 9]);
        let b = refenc(&[]);
        let mut dump = vec![0x55, 0x1b];
        dump.extend_from_slice(&a);
        dump.extend_from_slice(&[7, 7, 7]);
        dump.extend_from_slice(&b);
        if ref_extract(&dump) != vec![vec![1, 2, 3, 0x1b, 0x1b, 0x1b, 0x1b, 9], vec![]] {
            return Err("ref_extract".into());
        }
    }
    if !noise_ok(&[]) || !noise_ok(&[0x1b]) || noise_ok(&START) || !noise_ok(&START[..7]) {
        return Err("noise_ok".into());
    }
    let mut g = START[1..].to_vec(); // 1b1b1b 01010101 : no START
    if !noise_ok(&g) {
        return Err("noise_ok 2".into());
    }
    g.insert(0, 0x1b);
    if noise_ok(&g) {
        return Err("noise_ok 3".into());
    }
    Ok(())
}
