//! Front-end drivers: the seams through which the simulator owns the source
//! (arrival schedule, faults), the buffer (capacity ladder, failing
//! allocator) and the application (call history), and records every result
//! together with the number of bytes pulled from the source so far.

use crate::alloc;
use crate::obs::{DErr, IoKind, Item, Obs, PErr};
use crate::smlref::{conv_event, conv_file, reassemble, REv};
use serde::{Deserialize, Serialize};
use sml_rs::parser::complete::File;
use sml_rs::parser::streaming::Parser;
use sml_rs::transport::{decode, decode_streaming, Decoder, ReadDecodedError};
use sml_rs::util::{ArrayBuf, Buffer, ByteSource, ByteSourceErr, ErrKind};
use sml_rs::{DecodedBytes, ReadParsedError, SmlReader, SmlReaderBuilder};
use std::cell::Cell;
use std::fmt::Debug;

// ---------------------------------------------------------------------------
// configuration types
// ---------------------------------------------------------------------------

#[derive(Clone, Copy, PartialEq, Eq, Debug, Serialize, Deserialize, Hash)]
pub enum Fe {
    Push,
    Decode,
    Streaming,
    RdSlice,
    RdIter,
    RdIo,
    RdEh,
}

impl Fe {
    pub const ALL6: [Fe; 6] = [
        Fe::Push,
        Fe::Decode,
        Fe::Streaming,
        Fe::RdSlice,
        Fe::RdIter,
        Fe::RdIo,
    ];
    pub fn is_reader(&self) -> bool {
        matches!(self, Fe::RdSlice | Fe::RdIter | Fe::RdIo | Fe::RdEh)
    }
    /// does the harness observe how many bytes were pulled at each result?
    pub fn has_pos(&self) -> bool {
        !matches!(self, Fe::Decode | Fe::RdSlice)
    }
    pub fn name(&self) -> &'static str {
        match self {
            Fe::Push => "push",
            Fe::Decode => "decode",
            Fe::Streaming => "decode_streaming",
            Fe::RdSlice => "reader/slice",
            Fe::RdIter => "reader/iter",
            Fe::RdIo => "reader/io",
            Fe::RdEh => "reader/eh",
        }
    }
}

#[derive(Clone, Copy, PartialEq, Eq, Debug, Serialize, Deserialize, Hash)]
pub enum BufKind {
    Vec,
    Arr(usize),
    /// the reader's default constructor (8 KiB static buffer)
    Default,
}

/// compiled capacity ladder (DESIGN §3.5)
pub const LADDER: &[usize] = &[
    0, 1, 2, 3, 4, 5, 6, 7, 8, 9, 10, 11, 12, 13, 14, 15, 16, 17, 18, 19, 20, 21, 22, 23, 24, 25,
    26, 27, 28, 29, 30, 31, 32, 33, 34, 35, 36, 37, 38, 39, 40, 48, 64, 96, 128, 255, 256, 257,
    512, 1024, 2048, 4096, 8191, 8192, 8193, 70000, 300000, 1500000,
];

/// smallest ladder capacity >= n
pub fn ladder_at_least(n: usize) -> usize {
    *LADDER.iter().find(|c| **c >= n).expect("ladder exhausted")
}

#[macro_export]
macro_rules! with_cap_list {
    ($n:expr, $B:ident => $body:expr; $($c:literal)*) => {
        match $n {
            $( $c => { type $B = sml_rs::util::ArrayBuf<$c>; $body } )*
            other => panic!("HARNESS: capacity {} is not on the compiled ladder", other),
        }
    };
}

#[macro_export]
macro_rules! with_cap {
    ($n:expr, $B:ident => $body:expr) => {
        $crate::with_cap_list!($n, $B => $body;
              0 1 2 3 4 5 6 7 8 9 10 11 12 13 14 15 16 17 18 19 20 21 22 23 24 25
              26 27 28 29 30 31 32 33 34 35 36 37 38 39 40 48 64 96 128 255 256 257
              512 1024 2048 4096 8191 8192 8193 70000 300000 1500000)
    };
}

#[macro_export]
macro_rules! with_buf {
    ($k:expr, $B:ident => $body:expr) => {
        match $k {
            $crate::fe::BufKind::Vec => {
                type $B = Vec<u8>;
                $body
            }
            $crate::fe::BufKind::Default => {
                type $B = sml_rs::util::ArrayBuf<8192>;
                $body
            }
            $crate::fe::BufKind::Arr(n) => $crate::with_cap!(n, $B => $body),
        }
    };
}

pub trait MkBuilder: Buffer {
    fn builder() -> SmlReaderBuilder<Self>;
    const CAP: Option<usize>;
}
impl<const N: usize> MkBuilder for ArrayBuf<N> {
    fn builder() -> SmlReaderBuilder<Self> {
        SmlReader::with_static_buffer::<N>()
    }
    const CAP: Option<usize> = Some(N);
}
impl MkBuilder for Vec<u8> {
    fn builder() -> SmlReaderBuilder<Self> {
        SmlReader::with_vec_buffer()
    }
    const CAP: Option<usize> = None;
}

#[derive(Clone, Copy, PartialEq, Eq, Debug, Serialize, Deserialize, Hash)]
pub enum CallKind {
    Read,
    Next,
    ReadNb,
    NextNb,
}

#[derive(Clone, Copy, PartialEq, Eq, Debug, Serialize, Deserialize, Hash)]
pub enum Target {
    Bytes,
    File,
    Parser,
}

#[derive(Clone, Copy, PartialEq, Eq, Debug, Serialize, Deserialize, Hash)]
pub struct Call {
    pub kind: CallKind,
    pub target: Target,
    /// for Target::Parser: abandon the parser after this many events
    pub max_events: Option<u16>,
}

impl Call {
    pub const NEXT_BYTES: Call = Call {
        kind: CallKind::Next,
        target: Target::Bytes,
        max_events: None,
    };
}

#[derive(Clone, Copy, PartialEq, Eq, Debug, Serialize, Deserialize, Hash)]
pub enum SrcFault {
    WouldBlock,
    Interrupted,
    /// index into the palette of "other" errors
    Other(u8),
    /// transient end of input (io::Read: Ok(0) if style even, Err(UnexpectedEof) if odd)
    Eof(u8),
}

impl SrcFault {
    pub fn name(&self) -> &'static str {
        match self {
            SrcFault::WouldBlock => "WouldBlock",
            SrcFault::Interrupted => "Interrupted",
            SrcFault::Other(_) => "Other",
            SrcFault::Eof(_) => "Eof",
        }
    }
}

pub const IO_PALETTE: [std::io::ErrorKind; 6] = [
    std::io::ErrorKind::TimedOut,
    std::io::ErrorKind::BrokenPipe,
    std::io::ErrorKind::ConnectionReset,
    std::io::ErrorKind::InvalidData,
    std::io::ErrorKind::Other,
    std::io::ErrorKind::PermissionDenied,
];

#[derive(Clone, Copy, PartialEq, Eq, Debug, Serialize, Deserialize, Hash)]
pub enum PushOp {
    Finalize,
    Reset,
    /// usability probe (C05): finalize(), then a canonical frame of this many 0xa5 bytes,
    /// which must be delivered exactly at its last byte; allocation failure is not injected
    Probe(u8),
}

// ---------------------------------------------------------------------------
// simulated sources
// ---------------------------------------------------------------------------

/// shared view of the source state, readable by the harness while the reader owns the source
pub struct SrcState<'a> {
    pub data: &'a [u8],
    pub faults: &'a [(usize, SrcFault)],
    pub pos: Cell<usize>,
    pub fidx: Cell<usize>,
    pub fired: Cell<usize>,
    /// number of source calls (the step clock of E2E runs)
    pub calls: Cell<usize>,
}

impl<'a> SrcState<'a> {
    pub fn new(data: &'a [u8], faults: &'a [(usize, SrcFault)]) -> Self {
        SrcState {
            data,
            faults,
            pos: Cell::new(0),
            fidx: Cell::new(0),
            fired: Cell::new(0),
            calls: Cell::new(0),
        }
    }
    /// next pending fault at the current position, if any
    fn take_fault(&self) -> Option<SrcFault> {
        loop {
            let i = self.fidx.get();
            match self.faults.get(i) {
                Some((p, f)) if *p == self.pos.get() => {
                    self.fidx.set(i + 1);
                    self.fired.set(self.fired.get() + 1);
                    return Some(*f);
                }
                Some((p, _)) if *p < self.pos.get() => {
                    // unreachable fault (position already passed): skip
                    self.fidx.set(i + 1);
                }
                _ => return None,
            }
        }
    }
    fn take_byte(&self) -> Option<u8> {
        let p = self.pos.get();
        if p < self.data.len() {
            self.pos.set(p + 1);
            Some(self.data[p])
        } else {
            None
        }
    }
    pub fn drained(&self) -> bool {
        self.pos.get() >= self.data.len() && self.pending_faults() == 0
    }
    pub fn pending_faults(&self) -> usize {
        self.faults[self.fidx.get().min(self.faults.len())..]
            .iter()
            .filter(|(p, _)| *p >= self.pos.get() && *p <= self.data.len())
            .count()
    }
}

pub struct SimRead<'a, 's> {
    pub st: &'s SrcState<'a>,
}

impl<'a, 's> std::io::Read for SimRead<'a, 's> {
    fn read(&mut self, buf: &mut [u8]) -> std::io::Result<usize> {
        use std::io::{Error, ErrorKind};
        self.st.calls.set(self.st.calls.get() + 1);
        if buf.is_empty() {
            return Ok(0);
        }
        if let Some(f) = self.st.take_fault() {
            return match f {
                SrcFault::WouldBlock => Err(Error::from(ErrorKind::WouldBlock)),
                SrcFault::Interrupted => Err(Error::from(ErrorKind::Interrupted)),
                SrcFault::Other(k) => Err(Error::from(IO_PALETTE[k as usize % IO_PALETTE.len()])),
                SrcFault::Eof(style) => {
                    if style % 2 == 0 {
                        Ok(0)
                    } else {
                        Err(Error::from(ErrorKind::UnexpectedEof))
                    }
                }
            };
        }
        // hand over as many bytes as the caller has room for, up to the next pending fault and
        // up to a position-dependent chunk size (short reads are what pipes and serial lines do);
        // today's reader asks for one byte at a time, so this is one byte
        let pos = self.st.pos.get();
        let until_fault = self
            .st
            .faults
            .get(self.st.fidx.get())
            .map(|(p, _)| p.saturating_sub(pos))
            .filter(|d| *d > 0)
            .unwrap_or(usize::MAX);
        let chunk = 1 + (pos * 7 + 3) % 5;
        let want = buf.len().min(until_fault).min(chunk);
        let mut n = 0;
        while n < want {
            match self.st.take_byte() {
                Some(b) => {
                    buf[n] = b;
                    n += 1;
                }
                None => break,
            }
        }
        Ok(n)
    }
}

/// embedded-hal 0.2 serial port; after the data: `Other(0xED)` ("line dead") if
/// `end_dead`, else WouldBlock forever (idle UART)
pub struct SimEh<'a, 's> {
    pub st: &'s SrcState<'a>,
    pub end_dead: bool,
}

pub const EH_END: u8 = 0xED;

/// how the sticky "line dead" error of the embedded-hal mock shows up in an observation
pub fn eh_end_name() -> String {
    format!("{:?}", nb::Error::<u8>::Other(EH_END))
}

impl<'a, 's> embedded_hal::serial::Read<u8> for SimEh<'a, 's> {
    type Error = u8;
    fn read(&mut self) -> nb::Result<u8, u8> {
        self.st.calls.set(self.st.calls.get() + 1);
        loop {
            match self.st.take_fault() {
                Some(SrcFault::WouldBlock) => return Err(nb::Error::WouldBlock),
                Some(SrcFault::Other(k)) => return Err(nb::Error::Other(k % 0xE0)),
                // not expressible on this seam: ignored (never generated for it)
                Some(SrcFault::Interrupted) | Some(SrcFault::Eof(_)) => continue,
                None => break,
            }
        }
        match self.st.take_byte() {
            Some(b) => Ok(b),
            None => {
                if self.end_dead {
                    Err(nb::Error::Other(EH_END))
                } else {
                    Err(nb::Error::WouldBlock)
                }
            }
        }
    }
}

pub struct CountIter<'a, 's> {
    pub st: &'s SrcState<'a>,
}
impl<'a, 's> Iterator for CountIter<'a, 's> {
    type Item = u8;
    fn next(&mut self) -> Option<u8> {
        self.st.calls.set(self.st.calls.get() + 1);
        self.st.take_byte()
    }
    /// Always a *valid* hint, but of a kind that depends on the stream (a pure function of
    /// the scenario): none, exact, loose upper bound, lower bound only, upper bound at the
    /// limit of `usize`.  Code that starts to rely on hints must cope with all of them.
    fn size_hint(&self) -> (usize, Option<usize>) {
        let rem = self.st.data.len() - self.st.pos.get().min(self.st.data.len());
        match (self.st.data.len() + self.st.data.first().copied().unwrap_or(0) as usize) % 5 {
            0 => (0, None),
            1 => (rem, Some(rem)),
            2 => (0, Some(rem + 7)),
            3 => (rem / 2, None),
            _ => (0, Some(usize::MAX)),
        }
    }
}

// ---------------------------------------------------------------------------
// result conversion
// ---------------------------------------------------------------------------

fn io_kind<E: ByteSourceErr + Debug>(e: &E) -> IoKind {
    match e.kind() {
        ErrKind::Eof => IoKind::Eof,
        ErrKind::WouldBlock => IoKind::WouldBlock,
        ErrKind::Other => IoKind::Other(format!("{:?}", e)),
    }
}

fn conv_rde<E: ByteSourceErr + Debug>(e: &ReadDecodedError<E>) -> Item {
    match e {
        ReadDecodedError::DecodeErr(d) => Item::Dec(DErr::from(d)),
        ReadDecodedError::IoErr(e, n) => Item::Io(io_kind(e), *n),
    }
}

fn conv_rpe<E: ByteSourceErr + Debug>(e: &ReadParsedError<E>) -> Item {
    match e {
        ReadParsedError::ParseErr(p) => Item::Parse(PErr::from(p)),
        ReadParsedError::DecodeErr(d) => Item::Dec(DErr::from(d)),
        ReadParsedError::IoErr(e, n) => Item::Io(io_kind(e), *n),
    }
}

/// drain a streaming parser (bounded) into an `Events` item
pub fn drain_parser(p: Parser<'_>, max_events: Option<u16>, input_len: usize) -> Item {
    let mut evs: Vec<REv> = Vec::new();
    let mut err = None;
    let budget = match max_events {
        Some(k) => k as usize,
        None => input_len + 2,
    };
    let mut complete = false;
    let mut p = p;
    for _ in 0..budget {
        match p.next() {
            None => {
                complete = true;
                break;
            }
            Some(Ok(e)) => evs.push(conv_event(&e)),
            Some(Err(e)) => {
                err = Some(PErr::from(&e));
                complete = true;
                break;
            }
        }
    }
    let r = reassemble(&evs);
    Item::Events(r.file, err, complete && r.protocol_error.is_none() && !r.open_list)
}

// ---------------------------------------------------------------------------
// reader driving
// ---------------------------------------------------------------------------

pub struct AppPlan<'a> {
    /// cyclic list of calls
    pub calls: &'a [Call],
    /// polls after the run reached its terminal state
    pub extra_polls: usize,
    /// fail the n-th allocation inside library calls (Vec buffers, Bytes target only)
    pub alloc_fail: u64,
}

/// what a drained source makes the reader report: end of input for finite
/// sources; for the embedded-hal source (which has no end) an idle line
/// (would-block) or the sticky "line dead" error
fn is_terminal(item: &Item, eh: bool) -> bool {
    if eh {
        matches!(item, Item::Io(IoKind::WouldBlock, 0) | Item::NbWouldBlock)
            || matches!(item, Item::Io(IoKind::Other(s), _) if *s == eh_end_name())
    } else {
        matches!(item, Item::End | Item::Io(IoKind::Eof, 0))
    }
}

fn one_call<R, B>(rd: &mut SmlReader<R, B>, c: Call) -> Item
where
    R: ByteSource,
    R::ReadError: Debug,
    B: Buffer,
{
    fn bytes_item<E: ByteSourceErr + Debug>(r: Result<&[u8], ReadDecodedError<E>>) -> Item {
        match r {
            Ok(b) => Item::Msg(alloc::unscoped(|| b.to_vec())),
            Err(e) => alloc::unscoped(|| conv_rde(&e)),
        }
    }
    fn file_item<E: ByteSourceErr + Debug>(r: Result<File<'_>, ReadParsedError<E>>) -> Item {
        match r {
            Ok(f) => Item::File(conv_file(&f)),
            Err(e) => conv_rpe(&e),
        }
    }
    fn parser_item<E: ByteSourceErr + Debug>(
        r: Result<Parser<'_>, ReadDecodedError<E>>,
        me: Option<u16>,
    ) -> Item {
        match r {
            Ok(p) => drain_parser(p, me, 1 << 20),
            Err(e) => conv_rde(&e),
        }
    }
    match (c.kind, c.target) {
        (CallKind::Read, Target::Bytes) => bytes_item(rd.read::<DecodedBytes>()),
        (CallKind::Read, Target::File) => file_item(rd.read::<File>()),
        (CallKind::Read, Target::Parser) => parser_item(rd.read::<Parser>(), c.max_events),
        (CallKind::Next, Target::Bytes) => match rd.next::<DecodedBytes>() {
            None => Item::End,
            Some(r) => bytes_item(r),
        },
        (CallKind::Next, Target::File) => match rd.next::<File>() {
            None => Item::End,
            Some(r) => file_item(r),
        },
        (CallKind::Next, Target::Parser) => match rd.next::<Parser>() {
            None => Item::End,
            Some(r) => parser_item(r, c.max_events),
        },
        (CallKind::ReadNb, Target::Bytes) => match rd.read_nb::<DecodedBytes>() {
            Err(nb::Error::WouldBlock) => Item::NbWouldBlock,
            Err(nb::Error::Other(e)) => alloc::unscoped(|| conv_rde(&e)),
            Ok(b) => Item::Msg(alloc::unscoped(|| b.to_vec())),
        },
        (CallKind::ReadNb, Target::File) => match rd.read_nb::<File>() {
            Err(nb::Error::WouldBlock) => Item::NbWouldBlock,
            Err(nb::Error::Other(e)) => conv_rpe(&e),
            Ok(f) => Item::File(conv_file(&f)),
        },
        (CallKind::ReadNb, Target::Parser) => match rd.read_nb::<Parser>() {
            Err(nb::Error::WouldBlock) => Item::NbWouldBlock,
            Err(nb::Error::Other(e)) => conv_rde(&e),
            Ok(p) => drain_parser(p, c.max_events, 1 << 20),
        },
        (CallKind::NextNb, Target::Bytes) => match rd.next_nb::<DecodedBytes>() {
            Err(nb::Error::WouldBlock) => Item::NbWouldBlock,
            Err(nb::Error::Other(e)) => alloc::unscoped(|| conv_rde(&e)),
            Ok(None) => Item::End,
            Ok(Some(b)) => Item::Msg(alloc::unscoped(|| b.to_vec())),
        },
        (CallKind::NextNb, Target::File) => match rd.next_nb::<File>() {
            Err(nb::Error::WouldBlock) => Item::NbWouldBlock,
            Err(nb::Error::Other(e)) => conv_rpe(&e),
            Ok(None) => Item::End,
            Ok(Some(f)) => Item::File(conv_file(&f)),
        },
        (CallKind::NextNb, Target::Parser) => match rd.next_nb::<Parser>() {
            Err(nb::Error::WouldBlock) => Item::NbWouldBlock,
            Err(nb::Error::Other(e)) => conv_rde(&e),
            Ok(None) => Item::End,
            Ok(Some(p)) => drain_parser(p, c.max_events, 1 << 20),
        },
    }
}

/// The application task: issue calls until the source is drained and the
/// reader has reported a terminal condition, then `extra_polls` more.
pub fn drive_reader<R, B>(
    rd: &mut SmlReader<R, B>,
    st: &SrcState<'_>,
    plan: &AppPlan<'_>,
    track_pos: bool,
    eh: bool,
) -> (Vec<Obs>, Vec<Call>)
where
    R: ByteSource,
    R::ReadError: Debug,
    B: Buffer,
{
    let mut out = Vec::new();
    let mut made = Vec::new();
    let cap = st.data.len() + st.faults.len() + plan.extra_polls + 8;
    let mut extra_left: Option<usize> = None;
    let armed = if plan.alloc_fail > 0 {
        Some(alloc::arm(plan.alloc_fail))
    } else {
        None
    };
    let mut i = 0usize;
    while i < cap {
        let c = plan.calls[i % plan.calls.len()];
        let item = match (&armed, c.target) {
            (Some(a), Target::Bytes) => a.call(|| one_call(rd, c)),
            _ => one_call(rd, c),
        };
        let terminal = is_terminal(&item, eh);
        out.push(Obs {
            pos: if track_pos { st.pos.get() } else { usize::MAX },
            item,
        });
        made.push(c);
        i += 1;
        match extra_left {
            Some(0) => break,
            Some(n) => {
                extra_left = Some(n - 1);
                if n - 1 == 0 {
                    break;
                }
            }
            None => {
                let drained = if track_pos {
                    st.drained()
                } else {
                    // slice source: the harness does not see the position; a terminal
                    // item from a fault-free finite source means it is drained
                    true
                };
                if terminal && drained {
                    if plan.extra_polls == 0 {
                        break;
                    }
                    extra_left = Some(plan.extra_polls);
                }
            }
        }
    }
    (out, made)
}

/// Build a reader of the requested kind over the simulated source and drive it.
pub fn run_reader(
    fe: Fe,
    buf: BufKind,
    st: &SrcState<'_>,
    plan: &AppPlan<'_>,
    eh_end_dead: bool,
) -> (Vec<Obs>, Vec<Call>) {
    fn go_iter<B: MkBuilder>(st: &SrcState<'_>, plan: &AppPlan<'_>) -> (Vec<Obs>, Vec<Call>) {
        let mut rd = B::builder().from_iterator(CountIter { st });
        drive_reader(&mut rd, st, plan, true, false)
    }
    fn go_slice<B: MkBuilder>(st: &SrcState<'_>, plan: &AppPlan<'_>) -> (Vec<Obs>, Vec<Call>) {
        let mut rd = B::builder().from_slice(st.data);
        drive_reader(&mut rd, st, plan, false, false)
    }
    fn go_io<B: MkBuilder>(st: &SrcState<'_>, plan: &AppPlan<'_>) -> (Vec<Obs>, Vec<Call>) {
        let mut rd = B::builder().from_reader(SimRead { st });
        drive_reader(&mut rd, st, plan, true, false)
    }
    fn go_eh<B: MkBuilder>(
        st: &SrcState<'_>,
        plan: &AppPlan<'_>,
        end_dead: bool,
    ) -> (Vec<Obs>, Vec<Call>) {
        let mut rd = B::builder().from_eh_reader(SimEh { st, end_dead });
        drive_reader(&mut rd, st, plan, true, true)
    }
    match (fe, buf) {
        (Fe::RdIter, BufKind::Default) => {
            let mut rd = SmlReader::from_iterator(CountIter { st });
            drive_reader(&mut rd, st, plan, true, false)
        }
        (Fe::RdSlice, BufKind::Default) => {
            let mut rd = SmlReader::from_slice(st.data);
            drive_reader(&mut rd, st, plan, false, false)
        }
        (Fe::RdIo, BufKind::Default) => {
            let mut rd = SmlReader::from_reader(SimRead { st });
            drive_reader(&mut rd, st, plan, true, false)
        }
        (Fe::RdEh, BufKind::Default) => {
            let mut rd = SmlReader::from_eh_reader(SimEh {
                st,
                end_dead: eh_end_dead,
            });
            drive_reader(&mut rd, st, plan, true, true)
        }
        (Fe::RdIter, k) => with_buf!(k, B => go_iter::<B>(st, plan)),
        (Fe::RdSlice, k) => with_buf!(k, B => go_slice::<B>(st, plan)),
        (Fe::RdIo, k) => with_buf!(k, B => go_io::<B>(st, plan)),
        (Fe::RdEh, k) => with_buf!(k, B => go_eh::<B>(st, plan, eh_end_dead)),
        _ => panic!("HARNESS: run_reader called with a non-reader front-end"),
    }
}

// ---------------------------------------------------------------------------
// push decoder, decode, decode_streaming
// ---------------------------------------------------------------------------

pub fn item_of_push(r: Result<Option<&[u8]>, sml_rs::transport::DecodeErr>) -> Item {
    match r {
        Ok(None) => Item::Nothing,
        Ok(Some(m)) => Item::Msg(m.to_vec()),
        Err(e) => Item::Dec(DErr::from(&e)),
    }
}

/// push decoder over `stream` with `ops` (finalize / reset) applied before the
/// byte at the given position (position == len: after the last byte), and a
/// final `finalize()`.  Only non-`Nothing` results are recorded.
pub fn drive_push<B: Buffer>(
    stream: &[u8],
    ops: &[(usize, PushOp)],
    alloc_fail: u64,
    final_finalize: bool,
) -> Vec<Obs> {
    // A third of the streams meet a decoder that was built with `Decoder::from_buf` over a
    // buffer that still holds bytes of an earlier life (a pure function of the stream, so the
    // scenario alone decides it).  `from_buf` promises an empty decoder, hence no oracle changes.
    const JUNK: [u8; 8] = [0x1b, 0x1b, 0x1b, 0x1b, 0x01, 0x00, 0x1a, 0x55];
    let dirty = if stream.len() % 3 == 1 { Some(&JUNK[..stream.len() % 7 + 1]) } else { None };
    drive_push_from::<B>(stream, ops, alloc_fail, final_finalize, dirty)
}

/// like `drive_push`, optionally constructing the decoder with `Decoder::from_buf` over a buffer
/// that still holds (as much as fits of) `dirty`
pub fn drive_push_from<B: Buffer>(
    stream: &[u8],
    ops: &[(usize, PushOp)],
    alloc_fail: u64,
    final_finalize: bool,
    dirty: Option<&[u8]>,
) -> Vec<Obs> {
    let mut out = Vec::new();
    let mut d = match dirty {
        None => Decoder::<B>::new(),
        Some(junk) => {
            let mut b: B = Default::default();
            for x in junk {
                if b.push(*x).is_err() {
                    break;
                }
            }
            Decoder::<B>::from_buf(b)
        }
    };
    let armed = if alloc_fail > 0 {
        Some(alloc::arm(alloc_fail))
    } else {
        None
    };
    let mut oi = 0;
    for i in 0..=stream.len() {
        while oi < ops.len() && ops[oi].0 <= i {
            if ops[oi].0 == i {
                match ops[oi].1 {
                    PushOp::Finalize => match d.finalize() {
                        None => out.push(Obs {
                            pos: i,
                            item: Item::FinNone,
                        }),
                        Some(e) => out.push(Obs {
                            pos: i,
                            item: Item::Fin(DErr::from(&e)),
                        }),
                    },
                    PushOp::Reset => {
                        let n = d.reset();
                        out.push(Obs {
                            pos: i,
                            item: Item::Reset(n),
                        });
                    }
                    PushOp::Probe(k) => {
                        let _ = d.finalize();
                        let payload = vec![0xa5u8; k as usize];
                        let frame = crate::refenc::refenc(&payload);
                        let mut verdict = String::new();
                        for (j, b) in frame.iter().enumerate() {
                            let it = item_of_push(d.push_byte(*b));
                            let last = j + 1 == frame.len();
                            let ok = if last { it == Item::Msg(payload.clone()) } else { it == Item::Nothing };
                            if !ok && verdict.is_empty() {
                                verdict = format!("probe frame byte {}/{}: {}", j + 1, frame.len(), it.short());
                            }
                        }
                        out.push(Obs {
                            pos: i,
                            item: Item::Probe(verdict),
                        });
                    }
                }
            }
            oi += 1;
        }
        if i == stream.len() {
            break;
        }
        let b = stream[i];
        let item = match &armed {
            Some(a) => a.call(|| {
                let r = d.push_byte(b);
                alloc::unscoped(|| item_of_push(r))
            }),
            None => item_of_push(d.push_byte(b)),
        };
        if item != Item::Nothing {
            out.push(Obs { pos: i + 1, item });
        }
    }
    drop(armed);
    if final_finalize {
        match d.finalize() {
            None => out.push(Obs {
                pos: stream.len(),
                item: Item::FinNone,
            }),
            Some(e) => out.push(Obs {
                pos: stream.len(),
                item: Item::Fin(DErr::from(&e)),
            }),
        }
    }
    out
}

pub fn drive_push_kind(
    buf: BufKind,
    stream: &[u8],
    ops: &[(usize, PushOp)],
    alloc_fail: u64,
    final_finalize: bool,
) -> Vec<Obs> {
    with_buf!(buf, B => drive_push::<B>(stream, ops, alloc_fail, final_finalize))
}

/// A push decoder that has already served another stream (`history`) and was finalized, then is
/// fed `stream`: only what it reports about `stream` is returned (positions relative to it).
pub fn drive_push_used_kind(buf: BufKind, history: &[u8], stream: &[u8]) -> Vec<Obs> {
    let mut all = history.to_vec();
    all.extend_from_slice(stream);
    let h = history.len();
    let obs = with_buf!(buf, B => drive_push_from::<B>(&all, &[(h, PushOp::Finalize)], 0, true, None));
    let mut seen_boundary = false;
    let mut out = Vec::new();
    for o in obs {
        if !seen_boundary {
            if o.pos == h && matches!(o.item, Item::FinNone | Item::Fin(_)) {
                seen_boundary = true;
            }
            continue;
        }
        out.push(Obs { pos: o.pos - h, item: o.item });
    }
    out
}

pub fn drive_push_dirty_kind(buf: BufKind, stream: &[u8], dirty: &[u8]) -> Vec<Obs> {
    with_buf!(buf, B => drive_push_from::<B>(stream, &[], 0, true, Some(dirty)))
}

pub fn drive_decode(stream: &[u8]) -> Vec<Obs> {
    // `decode` accepts anything that yields `Borrow<u8>`: half of the streams are handed over
    // as a slice (items `&u8`, exact size hint), the other half through the counting iterator
    // (items `u8`, one of five kinds of size hint)
    let st = SrcState::new(stream, &[]);
    let res = if stream.len() % 2 == 0 { decode(stream) } else { decode(CountIter { st: &st }) };
    res.into_iter()
        .map(|r| Obs {
            pos: usize::MAX,
            item: match r {
                Ok(m) => Item::Msg(m),
                Err(e) => Item::Dec(DErr::from(&e)),
            },
        })
        .collect()
}

pub fn drive_streaming<B: Buffer>(stream: &[u8], extra_polls: usize) -> Vec<Obs> {
    let st = SrcState::new(stream, &[]);
    let mut it = decode_streaming::<B>(CountIter { st: &st });
    let mut out = Vec::new();
    let mut extra = None;
    let cap = stream.len() + extra_polls + 4;
    for _ in 0..cap {
        let item = match it.next() {
            None => Item::End,
            Some(Ok(m)) => Item::Msg(m.to_vec()),
            Some(Err(e)) => Item::Dec(DErr::from(&e)),
        };
        let end = item == Item::End;
        out.push(Obs {
            pos: st.pos.get(),
            item,
        });
        match extra {
            Some(n) => {
                if n <= 1 {
                    break;
                }
                extra = Some(n - 1);
            }
            None => {
                if end {
                    if extra_polls == 0 {
                        break;
                    }
                    extra = Some(extra_polls);
                }
            }
        }
    }
    out
}

pub fn drive_streaming_kind(buf: BufKind, stream: &[u8], extra_polls: usize) -> Vec<Obs> {
    with_buf!(buf, B => drive_streaming::<B>(stream, extra_polls))
}

/// Run any front-end fault-free over `stream`, calling `next::<DecodedBytes>`
/// for the readers.  Result items only (Nothing is never recorded).
pub fn run_plain(fe: Fe, buf: BufKind, stream: &[u8], extra_polls: usize) -> Vec<Obs> {
    match fe {
        Fe::Push => {
            let k = if buf == BufKind::Default {
                BufKind::Arr(8192)
            } else {
                buf
            };
            drive_push_kind(k, stream, &[], 0, true)
        }
        Fe::Decode => drive_decode(stream),
        Fe::Streaming => {
            let k = if buf == BufKind::Default {
                BufKind::Arr(8192)
            } else {
                buf
            };
            drive_streaming_kind(k, stream, extra_polls)
        }
        _ => {
            let st = SrcState::new(stream, &[]);
            let plan = AppPlan {
                calls: &[Call::NEXT_BYTES],
                extra_polls,
                alloc_fail: 0,
            };
            run_reader(fe, buf, &st, &plan, true).0
        }
    }
}


/// decode_streaming fed by an adapter with an inexact size hint (a filter over the data
/// interleaved with marker items that it removes again)
pub fn drive_streaming_loose<B: Buffer>(stream: &[u8], extra_polls: usize) -> Vec<Obs> {
    let src: Vec<Option<u8>> = stream
        .iter()
        .enumerate()
        .flat_map(|(i, b)| if i % 3 == 0 { vec![None, Some(*b)] } else { vec![Some(*b)] })
        .collect();
    let mut it = decode_streaming::<B>(src.iter().filter_map(|x| *x));
    let mut out = Vec::new();
    let mut extra = None;
    let cap = stream.len() + extra_polls + 4;
    for _ in 0..cap {
        let item = match it.next() {
            None => Item::End,
            Some(Ok(m)) => Item::Msg(m.to_vec()),
            Some(Err(e)) => Item::Dec(DErr::from(&e)),
        };
        let end = item == Item::End;
        out.push(Obs { pos: usize::MAX, item });
        match extra {
            Some(n) => {
                if n <= 1 {
                    break;
                }
                extra = Some(n - 1);
            }
            None => {
                if end {
                    if extra_polls == 0 {
                        break;
                    }
                    extra = Some(extra_polls);
                }
            }
        }
    }
    out
}

pub fn drive_streaming_loose_kind(buf: BufKind, stream: &[u8], extra_polls: usize) -> Vec<Obs> {
    with_buf!(buf, B => drive_streaming_loose::<B>(stream, extra_polls))
}
