//! Shared vocabulary of the simulator: tiers, statistics, outcomes, the
//! property trait.

use crate::rng::Rng;
use crate::scn::Scenario;
use serde::{Deserialize, Serialize};
use std::collections::BTreeMap;

#[derive(Clone, Copy, PartialEq, Eq, Debug)]
pub enum Tier {
    Quick,
    Thorough,
}

impl Tier {
    pub fn name(&self) -> &'static str {
        match self {
            Tier::Quick => "quick",
            Tier::Thorough => "thorough",
        }
    }
    pub fn parse(s: &str) -> Option<Tier> {
        match s {
            "quick" => Some(Tier::Quick),
            "thorough" => Some(Tier::Thorough),
            _ => None,
        }
    }
}

/// Counters.  Keys are `group.name`; merging across workers is a sum (or max
/// for keys in group `max`), so the result does not depend on the worker count.
#[derive(Clone, Default, Debug, Serialize, Deserialize)]
pub struct Stats {
    pub c: BTreeMap<String, u64>,
    /// when set, `exec` should render the history into `Outcome::hist`
    #[serde(skip)]
    pub want_hist: bool,
    #[serde(skip)]
    cache: Vec<((&'static str, &'static str), u64)>,
}

impl Stats {
    pub fn bump(&mut self, group: &'static str, name: &'static str) {
        self.add(group, name, 1)
    }
    pub fn add(&mut self, group: &'static str, name: &'static str, n: u64) {
        for e in self.cache.iter_mut() {
            if std::ptr::eq(e.0 .0, group) && std::ptr::eq(e.0 .1, name) {
                e.1 += n;
                return;
            }
        }
        self.cache.push(((group, name), n));
    }
    pub fn add_dyn(&mut self, key: String, n: u64) {
        *self.c.entry(key).or_insert(0) += n;
    }
    pub fn max(&mut self, name: &'static str, v: u64) {
        let e = self.c.entry(format!("max.{}", name)).or_insert(0);
        if v > *e {
            *e = v;
        }
    }
    /// fold the fast-path cache into the map
    pub fn settle(&mut self) {
        let cache = std::mem::take(&mut self.cache);
        for ((g, n), v) in cache {
            *self.c.entry(format!("{}.{}", g, n)).or_insert(0) += v;
        }
    }
    pub fn merge(&mut self, other: &Stats) {
        for (k, v) in &other.c {
            if k.starts_with("max.") {
                let e = self.c.entry(k.clone()).or_insert(0);
                if *v > *e {
                    *e = *v;
                }
            } else {
                *self.c.entry(k.clone()).or_insert(0) += *v;
            }
        }
    }
    pub fn get(&self, k: &str) -> u64 {
        self.c.get(k).copied().unwrap_or(0)
    }
}

#[derive(Clone, Debug, Serialize, Deserialize, PartialEq, Eq)]
pub struct Violation {
    /// oracle | panic | abort | hang
    pub class: String,
    /// stable identifier of the oracle clause (or panic site) that failed
    pub clause: String,
    pub detail: String,
}

impl Violation {
    pub fn oracle(clause: &str, detail: String) -> Violation {
        Violation {
            class: "oracle".into(),
            clause: clause.into(),
            detail,
        }
    }
    pub fn signature(&self) -> String {
        format!("{}:{}", self.class, self.clause)
    }
}

#[derive(Clone, Debug, Default)]
pub struct Outcome {
    pub violation: Option<Violation>,
    /// hash of the recorded history (identity of the run for the determinism proof)
    pub hist_hash: u64,
    /// non-trivial by the property's stated rule
    pub nontrivial: bool,
    /// logical steps covered (bytes delivered + source events + API calls)
    pub steps: u64,
    /// rendered history (only when Stats::want_hist)
    pub hist: String,
}

pub trait Prop: Sync {
    /// share of the seeded runs that is repeated by the *unoptimised build* of the simulator
    /// (sml-rs compiled as `cargo test` compiles it: no inlining, no tail calls, debug
    /// assertions) on a worker stack of ordinary size; 0 = not run.  Used by the totality
    /// properties, where "does not abort" depends on how deep the code recurses.
    fn unoptimised_share(&self, _tier: Tier) -> f64 {
        0.0
    }

    fn id(&self) -> &'static str;
    /// seed-independent directed schedule corpus
    fn directed(&self, _tier: Tier) -> Vec<Scenario> {
        Vec::new()
    }
    /// number of seeded runs for the tier
    fn runs(&self, tier: Tier) -> u64;
    fn gen(&self, rng: &mut Rng, tier: Tier) -> Scenario;
    fn exec(&self, scn: &Scenario, st: &mut Stats) -> Outcome;
    /// a crash (panic / abort / hang) inside a run counts against this property
    fn crash_is_violation(&self) -> bool {
        true
    }
    fn level(&self) -> &'static str {
        "exploration"
    }
    /// how cases are generated and what makes one non-trivial / distinct
    fn rule(&self) -> &'static str;
    fn assumptions(&self) -> Vec<&'static str> {
        Vec::new()
    }
    /// probes that must be non-zero for the run to count as having reached its targets
    fn required_probes(&self, _tier: Tier) -> Vec<&'static str> {
        Vec::new()
    }
}

pub const COMPONENTS_REAL: &[&str] = &[
    "sml_rs::transport::encode (buffer encoder)",
    "sml_rs::transport::encode_streaming (iterator encoder)",
    "sml_rs::transport::Decoder (push decoder, finalize, reset, from_buf)",
    "sml_rs::transport::decode / decode_streaming / DecoderReader",
    "sml_rs::SmlReader + SmlReaderBuilder over slice / iterator / io::Read / embedded-hal sources",
    "sml_rs::util::ArrayBuf<N>, Vec<u8> as Buffer",
    "sml_rs::parser::complete::parse, sml_rs::parser::streaming::Parser",
    "crc crate underneath sml-rs",
];

pub const COMPONENTS_STUB: &[&str] = &[
    "meter (abstract SML file model + wire encoder + Byzantine mutations)",
    "link (bit/byte faults, noise, cuts)",
    "source (io::Read / embedded-hal Read mocks driven by the fault schedule; counting iterator)",
    "memory (global allocator wrapper: accounting, transient failure, mmap for giant requests)",
    "application (call history generator)",
    "oracles: refenc, crc16_x25, reference SML reader, capacity-bounded vector, byte ledger",
];
