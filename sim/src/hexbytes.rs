//! byte strings as hex in replay / evidence files

use serde::{Deserialize, Deserializer, Serialize, Serializer};

pub fn hex(b: &[u8]) -> String {
    let mut s = String::with_capacity(b.len() * 2);
    for x in b {
        s.push_str(&format!("{:02x}", x));
    }
    s
}

pub fn unhex(s: &str) -> Result<Vec<u8>, String> {
    let s: Vec<u8> = s.bytes().filter(|c| !c.is_ascii_whitespace()).collect();
    if s.len() % 2 != 0 {
        return Err("odd hex length".into());
    }
    let mut v = Vec::with_capacity(s.len() / 2);
    for ch in s.chunks(2) {
        let t = std::str::from_utf8(ch).map_err(|e| e.to_string())?;
        v.push(u8::from_str_radix(t, 16).map_err(|e| e.to_string())?);
    }
    Ok(v)
}

pub fn serialize<S: Serializer>(b: &Vec<u8>, s: S) -> Result<S::Ok, S::Error> {
    s.serialize_str(&hex(b))
}

pub fn deserialize<'de, D: Deserializer<'de>>(d: D) -> Result<Vec<u8>, D::Error> {
    let s = String::deserialize(d)?;
    unhex(&s).map_err(serde::de::Error::custom)
}

/// newtype for nested use
#[derive(Clone, PartialEq, Eq, Hash, Default)]
pub struct Hx(pub Vec<u8>);

impl std::fmt::Debug for Hx {
    fn fmt(&self, f: &mut std::fmt::Formatter<'_>) -> std::fmt::Result {
        write!(f, "x\"{}\"", hex(&self.0))
    }
}
impl std::ops::Deref for Hx {
    type Target = Vec<u8>;
    fn deref(&self) -> &Vec<u8> {
        &self.0
    }
}
impl std::ops::DerefMut for Hx {
    fn deref_mut(&mut self) -> &mut Vec<u8> {
        &mut self.0
    }
}
impl From<Vec<u8>> for Hx {
    fn from(v: Vec<u8>) -> Self {
        Hx(v)
    }
}
impl From<&[u8]> for Hx {
    fn from(v: &[u8]) -> Self {
        Hx(v.to_vec())
    }
}
impl Serialize for Hx {
    fn serialize<S: Serializer>(&self, s: S) -> Result<S::Ok, S::Error> {
        s.serialize_str(&hex(&self.0))
    }
}
impl<'de> Deserialize<'de> for Hx {
    fn deserialize<D: Deserializer<'de>>(d: D) -> Result<Self, D::Error> {
        let s = String::deserialize(d)?;
        unhex(&s).map(Hx).map_err(serde::de::Error::custom)
    }
}
