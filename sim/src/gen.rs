//! Workload and fault generators for the LINK / E2E engines (DESIGN §3, §4).
//! Everything is a pure function of the `Rng` handed in.

use crate::core::Tier;
use crate::fe::{BufKind, Fe, SrcFault, LADDER};
use crate::refenc::{noise_ok, refenc, refenc_regions, Region, START};
use crate::rng::Rng;
use crate::hexbytes::Hx;
use crate::scn::{Enc, Seg, WireFault};

pub const END_LOOKALIKE: [u8; 8] = [0x1b, 0x1b, 0x1b, 0x1b, 0x1a, 0x00, 0x12, 0x34];

/// payload length classes: dense small, common medium, boundary classes
pub fn payload_len(rng: &mut Rng, tier: Tier, max: usize) -> usize {
    let w: &[usize] = match tier {
        Tier::Quick => &[50, 30, 8, 6, 4, 1],
        Tier::Thorough => &[40, 30, 10, 8, 6, 3],
    };
    let n = match rng.weighted(w) {
        0 => rng.range(0, 48),
        1 => rng.range(49, 600),
        2 => *rng.pick(&[252usize, 253, 254, 255, 256, 257, 258, 259, 260]),
        3 => *rng.pick(&[1020usize, 1021, 1022, 1023, 1024, 1025, 1026, 1027, 1028]),
        4 => rng.range(600, 4096),
        _ => *rng.pick(&[8188usize, 8189, 8190, 8191, 8192, 8193, 8194]),
    };
    n.min(max)
}

/// token grammar (DESIGN §4)
pub fn payload_tokens(rng: &mut Rng, target_len: usize) -> Vec<u8> {
    let mut p = Vec::with_capacity(target_len + 16);
    // per-run token mix (swarm): some kinds disabled
    let mut w = [30usize, 12, 12, 3, 3, 4, 3, 6];
    for x in w.iter_mut().skip(1) {
        if rng.chance(1, 4) {
            *x = 0;
        }
    }
    while p.len() < target_len {
        match rng.weighted(&w) {
            0 => {
                let k = rng.range(1, 12);
                p.extend_from_slice(&rng.bytes(k));
            }
            1 => {
                let k = rng.range(1, 9);
                p.extend(std::iter::repeat(0x1b).take(k));
            }
            2 => {
                let k = rng.range(1, 9);
                p.extend(std::iter::repeat(0x00).take(k));
            }
            3 => p.extend_from_slice(&START),
            4 => {
                let mut e = END_LOOKALIKE;
                e[5] = rng.below(5) as u8;
                e[6] = rng.byte();
                e[7] = rng.byte();
                p.extend_from_slice(&e);
            }
            5 => {
                let k = rng.range(1, 5);
                p.extend(std::iter::repeat(0x01).take(k));
            }
            6 => p.push(0x1a),
            _ => p.push(*rng.pick(&[0x1bu8, 0x00, 0x01, 0x1a, 0xff])),
        }
    }
    p.truncate(target_len);
    p
}

/// force the tail class: `z` zeros then … no: tail of `ones` × 0x1b preceded/followed by zeros
pub fn force_tail(rng: &mut Rng, p: &mut Vec<u8>) {
    let len = p.len();
    if len == 0 {
        return;
    }
    // mostly short tails; now and then one that passes 2^8 (and multiples of 255) or 2^16, so
    // that whatever counts withheld zeros or consecutive 1b bytes meets its limits
    let tail_len = |rng: &mut Rng| -> usize {
        match rng.below(24) {
            0 => rng.range(250, 260),
            1 => rng.range(505, 515),
            2 => *rng.pick(&[1020usize, 1023, 1024, 1275, 65_535, 65_536, 65_540]),
            _ => rng.below(10),
        }
    };
    let zeros = tail_len(rng).min(len);
    let ones = tail_len(rng).min(len - zeros);
    // layout: ... [1b * ones] [00 * zeros]   or   ... [00 * zeros] [1b * ones]
    if rng.chance(1, 2) {
        for i in 0..zeros {
            p[len - 1 - i] = 0;
        }
        for i in 0..ones {
            p[len - 1 - zeros - i] = 0x1b;
        }
    } else {
        for i in 0..ones {
            p[len - 1 - i] = 0x1b;
        }
        for i in 0..zeros {
            p[len - 1 - ones - i] = 0;
        }
    }
}

/// Payloads whose frame carries a checksum of a special shape: all zeros, all ones, bytes that
/// look like escape / end / start bytes.  Found by search over two free bytes behind a few
/// prefixes (a pure function of nothing: computed once per process).
pub fn special_crc_payloads() -> &'static Vec<Vec<u8>> {
    static T: std::sync::OnceLock<Vec<Vec<u8>>> = std::sync::OnceLock::new();
    T.get_or_init(|| {
        const TARGETS: [u16; 12] = [0x0000, 0xffff, 0x1b1b, 0x1a1b, 0x1b1a, 0x0101, 0x001b, 0x1b00, 0x00ff, 0xff00, 0x0100, 0x0001];
        let prefixes: [&[u8]; 3] = [&[], &[0x76, 0x05, 0xdb], &[0x1b, 0x1b, 0x1b, 0x1b, 0x00, 0x00, 0x42]];
        let mut out = Vec::new();
        for prefix in prefixes {
            for ab in 0..=0xffffu16 {
                let mut p = prefix.to_vec();
                p.push((ab >> 8) as u8);
                p.push(ab as u8);
                let f = crate::refenc::refenc(&p);
                let crc = u16::from(f[f.len() - 2]) | (u16::from(f[f.len() - 1]) << 8);
                if TARGETS.contains(&crc) {
                    out.push(p);
                }
            }
        }
        out
    })
}

pub fn gen_payload(rng: &mut Rng, tier: Tier, max: usize) -> Vec<u8> {
    if max >= 9 && rng.chance(1, 40) {
        return rng.pick(special_crc_payloads()).clone();
    }
    let n = payload_len(rng, tier, max);
    let mut p = match rng.below(8) {
        0 => rng.bytes(n),
        1 => vec![*rng.pick(&[0u8, 0x1b, 0x01, 0x1a]); n],
        _ => payload_tokens(rng, n),
    };
    if rng.chance(1, 2) {
        force_tail(rng, &mut p);
    }
    p
}

/// exact-length variant (for capacity-driven properties)
pub fn gen_payload_len(rng: &mut Rng, n: usize) -> Vec<u8> {
    let mut p = match rng.below(8) {
        0 => rng.bytes(n),
        1 => vec![*rng.pick(&[0u8, 0x1b, 0x01, 0x1a]); n],
        _ => payload_tokens(rng, n),
    };
    if rng.chance(1, 2) {
        force_tail(rng, &mut p);
    }
    p
}

/// length uniform in 0..=max
pub fn gen_payload_upto(rng: &mut Rng, max: usize) -> Vec<u8> {
    let n = rng.range(0, max);
    gen_payload_len(rng, n)
}

pub fn gen_enc(rng: &mut Rng) -> Enc {
    if rng.chance(1, 2) {
        Enc::Buf
    } else {
        Enc::Iter
    }
}

// ---------------------------------------------------------------------------
// noise
// ---------------------------------------------------------------------------

#[derive(Clone, Copy, Debug, PartialEq, Eq)]
pub enum NoiseClass {
    Empty,
    Random,
    Ends1b,
    EndsPartialStart,
    FourThenNot01,
    Zeros,
    All1b,
    Long,
    FalseStart,
}

impl NoiseClass {
    pub fn name(&self) -> &'static str {
        match self {
            NoiseClass::Empty => "empty",
            NoiseClass::Random => "random",
            NoiseClass::Ends1b => "ends-1b",
            NoiseClass::EndsPartialStart => "ends-partial-start",
            NoiseClass::FourThenNot01 => "1b1b1b1b-then-not-01",
            NoiseClass::Zeros => "zeros",
            NoiseClass::All1b => "all-1b",
            NoiseClass::Long => "long",
            NoiseClass::FalseStart => "false-start",
        }
    }
}

/// Replace bytes so that `g ++ START` contains START only at |g|.
fn repair_noise(g: &mut Vec<u8>) {
    loop {
        let mut v = g.clone();
        v.extend_from_slice(&START);
        let pos = crate::refenc::start_positions(&v);
        let bad: Vec<usize> = pos.into_iter().filter(|p| *p != g.len()).collect();
        if bad.is_empty() {
            return;
        }
        for p in bad {
            // break the occurrence at its 5th byte if that byte is inside g, else at its first
            let k = if p + 4 < g.len() { p + 4 } else { p.min(g.len().saturating_sub(1)) };
            if k < g.len() {
                g[k] = 0x7e;
            }
        }
    }
}

/// noise satisfying the C08 side condition, by class
pub fn gen_noise_class(rng: &mut Rng, class: NoiseClass, max: usize) -> Vec<u8> {
    let mut g: Vec<u8> = match class {
        NoiseClass::Empty => Vec::new(),
        NoiseClass::Random => {
            let n = rng.range(1, 40.min(max.max(1)));
            let mut v = payload_tokens(rng, n);
            v.truncate(n);
            v
        }
        NoiseClass::Ends1b => {
            let n = rng.range(0, 12);
            let mut v = rng.bytes(n);
            // 1..=9 trailing 1b; more than 3 only if it does not create START: always fine
            let k = rng.range(1, 9);
            v.extend(std::iter::repeat(0x1b).take(k));
            v
        }
        NoiseClass::EndsPartialStart => {
            let n = rng.range(0, 12);
            let mut v = rng.bytes(n);
            let k = rng.range(1, 7);
            v.extend_from_slice(&START[..k]);
            v
        }
        NoiseClass::FourThenNot01 => {
            let n = rng.range(0, 8);
            let mut v = rng.bytes(n);
            v.extend_from_slice(&[0x1b; 4]);
            let k = rng.range(0, 3);
            v.extend(std::iter::repeat(0x01).take(k));
            v.push(*rng.pick(&[0x00u8, 0x02, 0x1a, 0xff, 0x1b]));
            let m = rng.range(0, 4);
            v.extend_from_slice(&rng.bytes(m));
            v
        }
        NoiseClass::FalseStart => {
            // looks like a start sequence at a glance but is none: 1b1b1b1b 01{1..3} 1b{1..3} 01010101,
            // optionally followed by something that would derail a decoder that took it for one
            let mut v = rng.bytes_range(0, 4);
            v.extend_from_slice(&[0x1b; 4]);
            v.extend(std::iter::repeat(0x01).take(rng.range(1, 3)));
            v.extend(std::iter::repeat(0x1b).take(rng.range(1, 3)));
            v.extend_from_slice(&[0x01; 4]);
            match rng.below(4) {
                0 => {}
                1 => v.push(0x1b),
                2 => v.extend_from_slice(&[0x33, 0x1b, 0x1b, 0x1b, 0x1b, 0x1a, 0x00, 0x12, 0x34]),
                _ => v.extend_from_slice(&rng.bytes_range(1, 6)),
            }
            v
        }
        NoiseClass::Zeros => vec![0u8; rng.range(1, 20)],
        NoiseClass::All1b => vec![0x1bu8; rng.range(1, 20)],
        NoiseClass::Long => {
            let n = *rng.pick(&[255usize, 256, 257, 1000, 4000, 65_535, 65_536, 65_537, 70_000]);
            let n = n.min(max.max(1));
            match rng.below(3) {
                0 => vec![0u8; n],
                1 => vec![0x1bu8; n],
                _ => rng.bytes(n),
            }
        }
    };
    repair_noise(&mut g);
    debug_assert!(noise_ok(&g));
    g
}

pub const NOISE_CLASSES: [NoiseClass; 9] = [
    NoiseClass::Empty,
    NoiseClass::Random,
    NoiseClass::Ends1b,
    NoiseClass::EndsPartialStart,
    NoiseClass::FourThenNot01,
    NoiseClass::Zeros,
    NoiseClass::All1b,
    NoiseClass::Long,
    NoiseClass::FalseStart,
];

pub fn gen_noise(rng: &mut Rng, max: usize) -> (NoiseClass, Vec<u8>) {
    let c = NOISE_CLASSES[rng.weighted(&[6, 10, 8, 8, 4, 2, 2, 1, 3])];
    (c, gen_noise_class(rng, c, max))
}

/// arbitrary junk with no promise (may contain START, partial frames, …)
pub fn gen_raw(rng: &mut Rng, max: usize) -> Vec<u8> {
    let n = rng.range(0, max.max(1));
    match rng.below(4) {
        0 => rng.bytes(n),
        1 => {
            // a frame prefix / suffix
            let p = gen_payload_upto(rng, 23);
            let f = refenc(&p);
            let a = rng.below(f.len());
            let b = rng.range(a, f.len());
            f[a..b].to_vec()
        }
        _ => payload_tokens(rng, n),
    }
}

// ---------------------------------------------------------------------------
// wire faults with biased placement
// ---------------------------------------------------------------------------

/// Pick a position in the frame of `payload`: 50 % uniform, 50 % biased to the
/// regions a uniform draw rarely hits.
pub fn fault_position(rng: &mut Rng, regions: &[Region]) -> usize {
    let n = regions.len();
    if rng.chance(1, 2) {
        return rng.below(n);
    }
    let want = rng.below(6);
    let cands: Vec<usize> = regions
        .iter()
        .enumerate()
        .filter(|(_, r)| match want {
            0 => matches!(r, Region::End1b(_) | Region::End1a | Region::EndPad | Region::EndCrc(_)),
            1 => matches!(r, Region::Run1b(_) | Region::LiteralEsc(_)),
            2 => matches!(r, Region::ZeroTail(_) | Region::Pad(_)),
            3 => matches!(r, Region::Start(_)),
            4 => matches!(r, Region::EndPad | Region::End1a),
            _ => matches!(r, Region::Data),
        })
        .map(|(i, _)| i)
        .collect();
    if cands.is_empty() {
        rng.below(n)
    } else {
        *rng.pick(&cands)
    }
}

pub fn gen_wire_fault(rng: &mut Rng, payload: &[u8]) -> WireFault {
    let (f, regions) = refenc_regions(payload);
    let at = fault_position(rng, &regions);
    let special = [0x00u8, 0x1b, 0x01, 0x1a];
    match rng.weighted(&[30, 25, 12, 8, 10, 6, 5]) {
        0 => WireFault::Flip {
            at,
            bit: rng.below(8) as u8,
        },
        1 => WireFault::Set {
            at,
            val: if rng.chance(3, 4) {
                *rng.pick(&special)
            } else {
                rng.byte()
            },
        },
        2 => WireFault::Del { at },
        3 => WireFault::Dup { at },
        4 => WireFault::Ins {
            at,
            val: if rng.chance(3, 4) {
                *rng.pick(&special)
            } else {
                rng.byte()
            },
        },
        5 => {
            let len = rng.range(1, 12.min(f.len()));
            WireFault::DupChunk {
                from: rng.below(f.len()),
                len,
                to: at,
            }
        }
        _ => WireFault::Swap {
            at,
            len: rng.range(1, 4),
        },
    }
}

// ---------------------------------------------------------------------------
// Byzantine framing: a frame-like byte string, re-sealed with a CRC that is
// valid for a *wrong* reading of the same bytes (DESIGN §3.3)
// ---------------------------------------------------------------------------

pub const BYZ_KINDS: &[&str] = &[
    "wrong-pad-count",
    "pad-gt-3",
    "pad-gt-zero-run",
    "nonzero-pad-bytes",
    "misaligned-end",
    "end-shifted-by-1b",
    "unescaped-1b-run",
    "restart-crc-whole",
    "restart-crc-tail",
    "invalid-esc",
    "mangled-start",
    "bogus-realign",
    "wire-grammar",
    "canonical",
];

fn seal_end(v: &mut Vec<u8>, pad: u8) {
    v.extend_from_slice(&[0x1b, 0x1b, 0x1b, 0x1b, 0x1a, pad]);
    let crc = crate::refenc::crc16_x25(v);
    v.push((crc & 0xff) as u8);
    v.push((crc >> 8) as u8);
}

/// returns (kind index, bytes)
pub fn gen_byzantine_frame(rng: &mut Rng) -> (usize, Vec<u8>) {
    let k = rng.below(BYZ_KINDS.len());
    let n = rng.below(20);
    let mut data = payload_tokens(rng, n);
    // keep the data free of 4-runs of 1b unless the kind wants them
    let mut run = 0;
    for b in data.iter_mut() {
        if *b == 0x1b {
            run += 1;
            if run == 4 {
                *b = 0x55;
                run = 0;
            }
        } else {
            run = 0;
        }
    }
    let mut v = START.to_vec();
    match BYZ_KINDS[k] {
        "wrong-pad-count" => {
            // aligned data ending in zeros, pad count differs from the zero count needed
            while (data.len() + 2) % 4 != 0 {
                data.push(0x33);
            }
            data.extend_from_slice(&[0, 0]);
            v.extend_from_slice(&data);
            let pad = *rng.pick(&[0u8, 1, 3]);
            seal_end(&mut v, pad);
        }
        "pad-gt-3" => {
            while (data.len() + 8) % 4 != 0 {
                data.push(0x33);
            }
            data.extend_from_slice(&[0; 8]);
            v.extend_from_slice(&data);
            // also pad counts near the 8-bit limits (arithmetic on the untrusted pad byte)
            let pad = if rng.chance(1, 2) { rng.range(4, 8) as u8 } else { *rng.pick(&[0x0fu8, 0x10, 0x7f, 0x80, 0xef, 0xf0, 0xf7, 0xfc, 0xff]) };
            seal_end(&mut v, pad);
        }
        "pad-gt-zero-run" => {
            while (data.len() + 1) % 4 != 0 {
                data.push(0x44);
            }
            data.push(0);
            v.extend_from_slice(&data);
            seal_end(&mut v, rng.range(2, 3) as u8);
        }
        "nonzero-pad-bytes" => {
            while data.len() % 4 != 2 {
                data.push(0x44);
            }
            let nz = if rng.chance(1, 2) { [0x01, 0x00] } else { [0x00, 0x01] };
            data.extend_from_slice(&nz);
            v.extend_from_slice(&data);
            seal_end(&mut v, 2);
        }
        "misaligned-end" => {
            while data.len() % 4 == 0 {
                data.push(0x44);
            }
            if data.last() == Some(&0x1b) {
                *data.last_mut().unwrap() = 0x45;
            }
            v.extend_from_slice(&data);
            seal_end(&mut v, 0);
        }
        "end-shifted-by-1b" => {
            // data ends with k 1b where the total is NOT aligned for the shifted reading
            let k = rng.range(1, 3);
            while (data.len() + k) % 4 == 0 || data.last() == Some(&0x1b) {
                data.push(0x46);
            }
            data.extend(std::iter::repeat(0x1b).take(k));
            v.extend_from_slice(&data);
            seal_end(&mut v, 0);
        }
        "unescaped-1b-run" => {
            // five 1b followed by ordinary data, not escaped
            data.extend_from_slice(&[0x1b; 5]);
            data.extend_from_slice(&[0x10, 0x20, 0x30]);
            while data.len() % 4 != 0 {
                data.push(0x47);
            }
            v.extend_from_slice(&data);
            seal_end(&mut v, 0);
        }
        "restart-crc-whole" | "restart-crc-tail" => {
            while data.len() % 4 != 0 {
                data.push(0x48);
            }
            v.extend_from_slice(&data);
            let tail_from = v.len();
            v.extend_from_slice(&START);
            let m = rng.below(8);
            let mut d2 = rng.bytes(m);
            for b in d2.iter_mut() {
                if *b == 0x1b {
                    *b = 0x49;
                }
            }
            while d2.len() % 4 != 0 {
                d2.push(0x49);
            }
            v.extend_from_slice(&d2);
            if BYZ_KINDS[k] == "restart-crc-whole" {
                seal_end(&mut v, 0);
            } else {
                let mut t = v[tail_from..].to_vec();
                seal_end(&mut t, 0);
                v.truncate(tail_from);
                v.extend_from_slice(&t);
            }
        }
        "wire-grammar" => {
            // a frame-like byte string assembled from wire-level tokens and sealed with the CRC the
            // receiver will compute over exactly these bytes: every branch behind the checksum is
            // reachable, nothing but a canonical frame may come out
            let ntok = rng.range(0, 8);
            for _ in 0..ntok {
                match rng.below(9) {
                    0 | 1 => v.extend_from_slice(&rng.bytes_range(1, 6)),
                    2 => v.extend(std::iter::repeat(0x1b).take(rng.range(1, 9))),
                    3 => v.extend(std::iter::repeat(0x00).take(rng.range(1, 6))),
                    4 => v.extend_from_slice(&[0x1b; 8]),
                    5 => {
                        v.extend_from_slice(&[0x1b; 4]);
                        let code: [u8; 4] = match rng.below(6) {
                            0 => [0x01, 0x01, 0x01, 0x01],
                            1 => [0x1a, rng.below(5) as u8, rng.byte(), rng.byte()],
                            2 => [0x01, rng.byte(), 0x01, 0x01],
                            3 => [0x1b, 0x1b, 0x1a, 0x00],
                            4 => [0x1b, 0x1a, 0x00, rng.byte()],
                            _ => [rng.byte(), rng.byte(), rng.byte(), rng.byte()],
                        };
                        v.extend_from_slice(&code);
                    }
                    6 => v.extend(std::iter::repeat(0x01).take(rng.range(1, 4))),
                    7 => v.push(0x1a),
                    _ => v.push(*rng.pick(&[0x1bu8, 0x00, 0x01, 0x1a, 0xff])),
                }
            }
            if rng.chance(2, 3) {
                while v.len() % 4 != 0 {
                    v.push(if rng.chance(3, 4) { 0 } else { 0x31 });
                }
            }
            let pad = if rng.chance(3, 4) { rng.below(4) as u8 } else { *rng.pick(&[4u8, 5, 0x80, 0xf0, 0xff]) };
            seal_end(&mut v, pad);
        }
        "bogus-realign" => {
            // body whose length is not a multiple of four, then 1b1b1b1b, then filler bytes up to the
            // alignment that are NOT all 1b, then `1a 00` + CRC: looks like the "message ends in
            // 1-3 x 1b without padding" case, but is not
            while data.len() % 4 == 0 {
                data.push(0x4b);
            }
            let k = 4 - data.len() % 4;
            v.extend_from_slice(&data);
            v.extend_from_slice(&[0x1b; 4]);
            let fill: Vec<u8> = (0..k)
                .map(|i| if i + 1 == k || rng.chance(1, 2) { *rng.pick(&[0x42u8, 0x00, 0x01, 0xff]) } else { 0x1b })
                .collect();
            v.extend_from_slice(&fill);
            v.push(0x1a);
            v.push(0x00);
            let crc = crate::refenc::crc16_x25(&v);
            v.push((crc & 0xff) as u8);
            v.push((crc >> 8) as u8);
            // (the decoder reads the 4 bytes after 1b1b1b1b as the escape code, so the stream goes on
            // with whatever follows; nothing here may be delivered)
        }
        "mangled-start" => {
            // body, end sequence and CRC of a genuine frame behind a start sequence that is not one
            let f = refenc(&data);
            let a = rng.range(1, 3);
            let b = rng.range(1, 4);
            let start: Vec<u8> = match rng.below(8) {
                0 => [vec![0x1b; 4], vec![0x01; a], vec![0x1b; b], vec![0x01; 4]].concat(),
                1 => [vec![0x1b; 4], vec![0x01; a], vec![0x1b; b], vec![0x01; 4 - a]].concat(),
                2 => [vec![0x1b; rng.range(1, 3)], vec![0x01; 4]].concat(),
                3 => [vec![0x1b; 4], vec![0x01; 3]].concat(),
                4 => [vec![0x1b; 4], vec![0x01; 3], vec![rng.byte() | 2], vec![0x01]].concat(),
                5 => [vec![0x1b; 2], vec![0x01; 1], vec![0x1b; 2], vec![0x01; 4]].concat(),
                6 => [vec![0x1b; 4], vec![0x01; 2], vec![0x1b; 4], vec![0x01; 2]].concat(),
                _ => [vec![0x01; a], vec![0x1b; 4], vec![0x01; 3], vec![0x1b; 1], vec![0x01; 1]].concat(),
            };
            let mut out = start;
            out.extend_from_slice(&f[8..]);
            return (k, out);
        }
        "invalid-esc" => {
            while data.len() % 4 != 0 {
                data.push(0x4a);
            }
            v.extend_from_slice(&data);
            v.extend_from_slice(&[0x1b; 4]);
            let code: [u8; 4] = match rng.below(8) {
                0 => [0x01, 0xff, 0x01, 0x01],
                1 => [0x01, 0x01, 0xff, 0x01],
                2 => [0x01, 0x01, 0x01, 0x00],
                3 => [0x01, 0x1b, 0x1b, 0x1b],
                4 => [0x02, 0x03, 0x04, 0x1b],
                5 => [0x02, 0x03, 0x1b, 0x1b],
                _ => [*rng.pick(&[0x02u8, 0x1c, 0x00, 0x1a ^ 0x80]), 0, 0, 0],
            };
            v.extend_from_slice(&code);
            // sometimes the stream ends right here, sometimes more of the frame follows
            if rng.chance(1, 3) {
                return (k, v);
            }
            seal_end(&mut v, 0);
        }
        _ => {
            // canonical, for contrast
            let f = refenc(&data);
            return (k, f);
        }
    }
    (k, v)
}

// ---------------------------------------------------------------------------
// configuration draws
// ---------------------------------------------------------------------------

pub fn gen_fe6(rng: &mut Rng) -> Fe {
    *rng.pick(&Fe::ALL6)
}

/// a buffer that can hold `need` bytes; sometimes exactly `need` if on the ladder
pub fn gen_buf_fitting(rng: &mut Rng, fe: Fe, need: usize) -> BufKind {
    if fe == Fe::Decode {
        return BufKind::Vec;
    }
    match rng.below(4) {
        0 => BufKind::Vec,
        1 if fe.is_reader() && need <= 8192 => BufKind::Default,
        _ => {
            let c = crate::fe::ladder_at_least(need);
            // sometimes a roomier one
            if rng.chance(1, 3) {
                let bigger: Vec<usize> = LADDER.iter().copied().filter(|x| *x >= c).take(4).collect();
                BufKind::Arr(*rng.pick(&bigger))
            } else {
                BufKind::Arr(c)
            }
        }
    }
}

/// 0..below faults
pub fn gen_src_faults_upto(rng: &mut Rng, len: usize, below: usize, kinds: &[SrcFault]) -> Vec<(usize, SrcFault)> {
    let k = rng.below(below);
    gen_src_faults(rng, len, k, kinds)
}

/// source faults over a stream of `len` bytes
pub fn gen_src_faults(
    rng: &mut Rng,
    len: usize,
    count: usize,
    kinds: &[SrcFault],
) -> Vec<(usize, SrcFault)> {
    let mut v = Vec::new();
    for _ in 0..count {
        let pos = if rng.chance(1, 6) {
            *rng.pick(&[0usize, len])
        } else {
            rng.below(len + 1)
        };
        let mut f = *rng.pick(kinds);
        if let SrcFault::Other(_) = f {
            f = SrcFault::Other(rng.below(6) as u8);
        }
        if let SrcFault::Eof(_) = f {
            f = SrcFault::Eof(rng.below(2) as u8);
        }
        let rep = if matches!(f, SrcFault::WouldBlock | SrcFault::Interrupted) {
            rng.range(1, 3)
        } else {
            1
        };
        for _ in 0..rep {
            v.push((pos, f));
        }
    }
    v.sort_by_key(|(p, _)| *p);
    v
}


// ---------------------------------------------------------------------------
// arbitrary streams (no promise): frames with and without faults, noise, junk,
// cut-off frames, Byzantine frames.  Swarm style: each run draws its own mix.
// ---------------------------------------------------------------------------

pub struct StreamMix {
    pub max_payload: usize,
    pub max_segs: usize,
    /// weights: intact frame, faulty frame, noise, raw, cut, byzantine
    pub w: [usize; 6],
}

impl StreamMix {
    pub fn draw(rng: &mut Rng, max_payload: usize) -> StreamMix {
        let mut w = [6usize, 6, 3, 3, 3, 3];
        for x in w.iter_mut() {
            if rng.chance(1, 4) {
                *x = 0;
            }
        }
        if w.iter().sum::<usize>() == 0 {
            w[1] = 1;
        }
        StreamMix {
            max_payload,
            max_segs: rng.range(1, 6),
            w,
        }
    }
}

pub fn gen_segs(rng: &mut Rng, tier: Tier, mix: &StreamMix) -> Vec<Seg> {
    let n = rng.range(1, mix.max_segs);
    let mut v = Vec::new();
    for _ in 0..n {
        match rng.weighted(&mix.w) {
            0 => {
                let p = gen_payload(rng, tier, mix.max_payload);
                v.push(Seg::Frame {
                    payload: Hx(p),
                    enc: gen_enc(rng),
                    faults: vec![],
                });
            }
            1 => {
                let p = gen_payload(rng, tier, mix.max_payload.min(300));
                let k = rng.range(1, 3);
                let faults = (0..k).map(|_| gen_wire_fault(rng, &p)).collect();
                v.push(Seg::Frame {
                    payload: Hx(p),
                    enc: Enc::Ref,
                    faults,
                });
            }
            2 => {
                let (_, g) = gen_noise(rng, 300);
                v.push(Seg::Noise(Hx(g)));
            }
            3 => v.push(Seg::Raw(Hx(gen_raw(rng, 40)))),
            4 => {
                let p = gen_payload(rng, tier, mix.max_payload.min(200));
                let flen = refenc(&p).len();
                let cut = rng.range(0, flen - 1);
                v.push(Seg::Cut { payload: Hx(p), cut });
            }
            _ => {
                let (_, b) = gen_byzantine_frame(rng);
                v.push(Seg::Raw(Hx(b)));
            }
        }
    }
    v
}

/// stream offsets at which something structural happens: segment boundaries and their
/// neighbourhood (just after a start sequence, inside / after an end sequence, ...)
pub fn marks_of(segs: &[Seg]) -> Vec<usize> {
    let b = crate::scn::build_stream(segs);
    let len = b.stream.len();
    let mut m = vec![0, len];
    for s in &b.segs {
        for d in [0i64, 1, 4, 7, 8, 9, 12] {
            let p = s.start as i64 + d;
            if p >= 0 && p as usize <= len {
                m.push(p as usize);
            }
        }
        for d in [0i64, 1, 2, 3, 4, 5, 8] {
            let p = s.end as i64 - d;
            if p >= 0 && p as usize <= len {
                m.push(p as usize);
            }
        }
    }
    m.sort();
    m.dedup();
    m
}

/// like `gen_push_ops`, but half of the positions are drawn from `marks`
pub fn gen_push_ops_biased(rng: &mut Rng, len: usize, count: usize, marks: &[usize]) -> Vec<(usize, crate::fe::PushOp)> {
    let mut v = gen_push_ops(rng, len, count);
    for (p, _) in v.iter_mut() {
        if !marks.is_empty() && rng.chance(1, 2) {
            *p = *rng.pick(marks);
        }
    }
    v.sort_by_key(|(p, _)| *p);
    v
}

/// move half of the source faults to structurally interesting offsets (runs of repeated faults
/// at one position stay together)
pub fn bias_src(rng: &mut Rng, v: &mut Vec<(usize, SrcFault)>, marks: &[usize]) {
    let mut last: Option<(usize, usize)> = None;
    for (p, _) in v.iter_mut() {
        match last {
            Some((o, n)) if o == *p => *p = n,
            _ => {
                let old = *p;
                if !marks.is_empty() && rng.chance(1, 2) {
                    *p = *rng.pick(marks);
                }
                last = Some((old, *p));
            }
        }
    }
    v.sort_by_key(|(p, _)| *p);
}

/// finalize / reset at random positions of a stream of `len` bytes
pub fn gen_push_ops(rng: &mut Rng, len: usize, count: usize) -> Vec<(usize, crate::fe::PushOp)> {
    let mut v = Vec::new();
    for _ in 0..count {
        let pos = rng.below(len + 1);
        let op = if rng.chance(1, 2) {
            crate::fe::PushOp::Finalize
        } else {
            crate::fe::PushOp::Reset
        };
        v.push((pos, op));
        if rng.chance(1, 5) {
            // the same call (or the other one) again, right away
            let op2 = if rng.chance(1, 2) {
                op
            } else if op == crate::fe::PushOp::Finalize {
                crate::fe::PushOp::Reset
            } else {
                crate::fe::PushOp::Finalize
            };
            v.push((pos, op2));
        }
    }
    v.sort_by_key(|(p, _)| *p);
    v
}


/// all strings over `alphabet` of length 0..=max_len (small-scope directed sweeps)
pub fn all_strings(alphabet: &[u8], max_len: usize) -> Vec<Vec<u8>> {
    let mut out: Vec<Vec<u8>> = vec![Vec::new()];
    let mut frontier: Vec<Vec<u8>> = vec![Vec::new()];
    for _ in 0..max_len {
        let mut next = Vec::with_capacity(frontier.len() * alphabet.len());
        for f in &frontier {
            for a in alphabet {
                let mut v = f.clone();
                v.push(*a);
                next.push(v);
            }
        }
        out.extend(next.iter().cloned());
        frontier = next;
    }
    out
}
