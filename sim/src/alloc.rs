//! Simulated memory: the global allocator of the harness binary.
//!
//! * accounting per scope (requests, bytes requested, peak live bytes, largest request)
//! * transient allocation failure: the n-th request inside an armed scope returns null
//! * requests of 1 GiB and more are served from a lazily committed
//!   `mmap(MAP_NORESERVE)` region, so that a declared-length-sized allocation is
//!   measured and reported instead of killing the process
//!
//! All state is thread local (const-initialised `Cell`s, no destructor), so
//! only the thread that opened a scope is affected.

use std::alloc::{GlobalAlloc, Layout, System};
use std::cell::Cell;

pub struct SimAlloc;

const GIANT: usize = 1 << 30;

thread_local! {
    static IN_SCOPE: Cell<bool> = const { Cell::new(false) };
    static FAIL_AT: Cell<u64> = const { Cell::new(0) };   // 0 = disarmed; n = fail the n-th request from now
    static FAILED: Cell<u64> = const { Cell::new(0) };
    static CALLS: Cell<u64> = const { Cell::new(0) };
    static BYTES: Cell<u64> = const { Cell::new(0) };
    static LIVE: Cell<i64> = const { Cell::new(0) };
    static PEAK: Cell<i64> = const { Cell::new(0) };
    static MAXREQ: Cell<u64> = const { Cell::new(0) };
    static GIANTS: Cell<u64> = const { Cell::new(0) };
}

#[derive(Clone, Copy, Debug, Default, PartialEq, Eq)]
pub struct AllocStats {
    pub calls: u64,
    pub bytes: u64,
    pub peak_live: u64,
    pub max_request: u64,
    pub giants: u64,
    pub failed: u64,
}

/// returns true if this request must fail
fn account(size: usize) -> bool {
    let in_scope = IN_SCOPE.try_with(|c| c.get()).unwrap_or(false);
    if !in_scope {
        return false;
    }
    CALLS.with(|c| c.set(c.get() + 1));
    BYTES.with(|c| c.set(c.get().saturating_add(size as u64)));
    MAXREQ.with(|c| c.set(c.get().max(size as u64)));
    let fail = FAIL_AT.with(|c| {
        let v = c.get();
        if v == 0 {
            false
        } else if v == 1 {
            c.set(0);
            true
        } else {
            c.set(v - 1);
            false
        }
    });
    if fail {
        FAILED.with(|c| c.set(c.get() + 1));
        return true;
    }
    LIVE.with(|l| {
        let v = l.get().saturating_add(size as i64);
        l.set(v);
        PEAK.with(|p| p.set(p.get().max(v)));
    });
    false
}

fn account_free(size: usize) {
    let in_scope = IN_SCOPE.try_with(|c| c.get()).unwrap_or(false);
    if in_scope {
        LIVE.with(|l| l.set(l.get().saturating_sub(size as i64)));
    }
}

unsafe impl GlobalAlloc for SimAlloc {
    unsafe fn alloc(&self, layout: Layout) -> *mut u8 {
        if account(layout.size()) {
            return std::ptr::null_mut();
        }
        if layout.size() >= GIANT {
            let _ = GIANTS.try_with(|c| c.set(c.get() + 1));
            let p = libc::mmap(
                std::ptr::null_mut(),
                layout.size(),
                libc::PROT_READ | libc::PROT_WRITE,
                libc::MAP_PRIVATE | libc::MAP_ANONYMOUS | libc::MAP_NORESERVE,
                -1,
                0,
            );
            if p == libc::MAP_FAILED {
                return std::ptr::null_mut();
            }
            return p as *mut u8;
        }
        System.alloc(layout)
    }

    unsafe fn dealloc(&self, ptr: *mut u8, layout: Layout) {
        account_free(layout.size());
        if layout.size() >= GIANT {
            libc::munmap(ptr as *mut libc::c_void, layout.size());
            return;
        }
        System.dealloc(ptr, layout)
    }

    unsafe fn realloc(&self, ptr: *mut u8, layout: Layout, new_size: usize) -> *mut u8 {
        if layout.size() >= GIANT || new_size >= GIANT {
            // generic path: alloc + copy + dealloc (each accounted)
            let new_layout = Layout::from_size_align_unchecked(new_size, layout.align());
            let np = self.alloc(new_layout);
            if !np.is_null() {
                std::ptr::copy_nonoverlapping(ptr, np, layout.size().min(new_size));
                self.dealloc(ptr, layout);
            }
            return np;
        }
        if account(new_size) {
            return std::ptr::null_mut();
        }
        account_free(layout.size());
        System.realloc(ptr, layout, new_size)
    }
}

fn reset_counters() {
    CALLS.with(|c| c.set(0));
    BYTES.with(|c| c.set(0));
    LIVE.with(|c| c.set(0));
    PEAK.with(|c| c.set(0));
    MAXREQ.with(|c| c.set(0));
    GIANTS.with(|c| c.set(0));
    FAILED.with(|c| c.set(0));
}

fn read_counters() -> AllocStats {
    AllocStats {
        calls: CALLS.with(|c| c.get()),
        bytes: BYTES.with(|c| c.get()),
        peak_live: PEAK.with(|c| c.get().max(0) as u64),
        max_request: MAXREQ.with(|c| c.get()),
        giants: GIANTS.with(|c| c.get()),
        failed: FAILED.with(|c| c.get()),
    }
}

struct ScopeGuard {
    prev: bool,
}
impl Drop for ScopeGuard {
    fn drop(&mut self) {
        IN_SCOPE.with(|c| c.set(self.prev));
        FAIL_AT.with(|c| c.set(0));
    }
}

/// Run `f` with accounting on (and, if `fail_at > 0`, the `fail_at`-th request
/// failing once).  The scope ends even if `f` panics.
pub fn scope<T>(fail_at: u64, f: impl FnOnce() -> T) -> (T, AllocStats) {
    reset_counters();
    let prev = IN_SCOPE.with(|c| c.replace(true));
    FAIL_AT.with(|c| c.set(fail_at));
    let g = ScopeGuard { prev };
    let r = f();
    drop(g);
    (r, read_counters())
}

/// run `f` (harness code) outside any accounting / failure scope
pub fn unscoped<T>(f: impl FnOnce() -> T) -> T {
    struct G(bool);
    impl Drop for G {
        fn drop(&mut self) {
            IN_SCOPE.with(|c| c.set(self.0));
        }
    }
    let g = G(IN_SCOPE.with(|c| c.replace(false)));
    let r = f();
    drop(g);
    r
}

/// Arm a failure countdown that persists over several library calls (the
/// harness suspends accounting between them with `pause`).
pub struct Armed {
    prev: bool,
}
pub fn arm(fail_at: u64) -> Armed {
    reset_counters();
    FAIL_AT.with(|c| c.set(fail_at));
    Armed {
        prev: IN_SCOPE.with(|c| c.get()),
    }
}
impl Armed {
    /// run one library call inside the armed scope
    pub fn call<T>(&self, f: impl FnOnce() -> T) -> T {
        struct G(bool);
        impl Drop for G {
            fn drop(&mut self) {
                IN_SCOPE.with(|c| c.set(self.0));
            }
        }
        let g = G(IN_SCOPE.with(|c| c.replace(true)));
        let r = f();
        drop(g);
        r
    }
    pub fn stats(&self) -> AllocStats {
        read_counters()
    }
    pub fn still_armed(&self) -> bool {
        FAIL_AT.with(|c| c.get()) != 0
    }
    pub fn disarm(&self) {
        FAIL_AT.with(|c| c.set(0));
    }
}
impl Drop for Armed {
    fn drop(&mut self) {
        FAIL_AT.with(|c| c.set(0));
        IN_SCOPE.with(|c| c.set(self.prev));
    }
}
