//! One module per property: scenario generation, directed corpus, oracle.

use crate::core::{Outcome, Prop, Stats, Violation};
use crate::fe::{BufKind, Fe, PushOp};
use crate::obs::{hash_of, show_hist, DErr, IoKind, Item, Obs};
use crate::refenc::{refenc, START};
use crate::scn::{Built, FileScn, LinkScn, Scenario, BufScn};

pub mod c01;
pub mod c02;
pub mod c04;
pub mod c05;
pub mod c06;
pub mod c07;
pub mod c08;
pub mod c09;
pub mod c10;
pub mod c11;
pub mod e2ecommon;
pub mod c13;
pub mod filecommon;
pub mod c14;
pub mod c15;
pub mod c16;
pub mod c17;
pub mod c18;

pub fn all() -> Vec<&'static dyn Prop> {
    vec![
        &c01::C01, &c02::C02, &c04::C04, &c05::C05, &c06::C06, &c07::C07, &c08::C08, &c09::C09, &c10::C10, &c11::C11, &c13::C13, &c14::C14, &c15::C15, &c16::C16,
        &c17::C17, &c18::C18,
    ]
}

pub fn get(id: &str) -> Option<&'static dyn Prop> {
    all().into_iter().find(|p| p.id() == id)
}

pub fn link(s: &Scenario) -> &LinkScn {
    match s {
        Scenario::Link(l) => l,
        _ => panic!("HARNESS: expected a LINK scenario"),
    }
}
pub fn file(s: &Scenario) -> &FileScn {
    match s {
        Scenario::File(l) => l,
        _ => panic!("HARNESS: expected a FILE scenario"),
    }
}
pub fn buf(s: &Scenario) -> &BufScn {
    match s {
        Scenario::Buf(l) => l,
        _ => panic!("HARNESS: expected a BUF scenario"),
    }
}

pub fn count_wire_faults(st: &mut Stats, b: &Built) {
    for (k, r) in &b.fired {
        st.add_dyn(format!("fault.{}@{}", k, r), 1);
    }
}

pub fn finish(st: &Stats, obs: &[Obs], violation: Option<Violation>, nontrivial: bool, steps: u64) -> Outcome {
    Outcome {
        violation,
        hist_hash: hash_of(&obs),
        nontrivial,
        steps,
        hist: if st.want_hist { show_hist(obs) } else { String::new() },
    }
}

/// remove would-block surfacings (transparent by C11)
pub fn strip_would_block(obs: &[Obs]) -> Vec<Obs> {
    obs.iter()
        .filter(|o| !matches!(o.item, Item::Io(IoKind::WouldBlock, 0) | Item::NbWouldBlock))
        .cloned()
        .collect()
}

pub fn items(obs: &[Obs]) -> Vec<Item> {
    obs.iter().map(|o| o.item.clone()).collect()
}

pub fn show_items(it: &[Item]) -> String {
    let v: Vec<String> = it.iter().map(|i| i.short()).collect();
    format!("[{}]", v.join(", "))
}

/// the terminal items a front-end appends after the stream is exhausted with
/// nothing pending (leftover == 0)
pub fn terminal_clean(fe: Fe, extra_polls: usize) -> Vec<Item> {
    match fe {
        Fe::Push => vec![Item::FinNone],
        Fe::Decode => vec![],
        _ => vec![Item::End; 1 + extra_polls],
    }
}

// ---------------------------------------------------------------------------
// Byte ledger (C17; also the independent pin for counts in C08 / C11)
// ---------------------------------------------------------------------------

/// For front-ends whose final report comes as an ordinary item (decode,
/// decode_streaming): the last non-End item, if it is a discarded-bytes
/// report, is the one produced by the internal finalize().
pub fn mark_final(obs: &[Obs]) -> Vec<Obs> {
    let mut v = obs.to_vec();
    if let Some(k) = v.iter().rposition(|o| o.item != Item::End) {
        if let Item::Dec(DErr::Discarded(n)) = v[k].item {
            v[k].item = Item::Fin(DErr::Discarded(n));
        }
    }
    v
}

/// Check that the observations tile `stream`.  `ops_at_end`: the push decoder
/// history ends with finalize().  Returns Err(clause, detail) on the first
/// inconsistency.
pub fn ledger(stream: &[u8], obs: &[Obs], require_tiling: bool) -> Result<(), (&'static str, String)> {
    let mut boundary = 0usize;
    for (k, o) in obs.iter().enumerate() {
        let i = o.pos;
        if i == usize::MAX {
            return Err(("ledger.no-position", "front-end without positions".into()));
        }
        if i > stream.len() || i < boundary {
            return Err((
                "ledger.position",
                format!("obs {} at position {} outside [{}, {}]", k, i, boundary, stream.len()),
            ));
        }
        match &o.item {
            Item::Nothing | Item::End | Item::FinNone | Item::NbWouldBlock | Item::Probe(_) => {
                if matches!(o.item, Item::FinNone) && i != boundary {
                    // finalize returned None although bytes were pending since the last boundary?
                    // legal only if the decoder had just delivered (boundary == i) or nothing was consumed
                    return Err((
                        "ledger.finalize-none-with-pending",
                        format!("finalize() returned None at {} but {} bytes since the last boundary are unaccounted", i, i - boundary),
                    ));
                }
                if matches!(o.item, Item::End) && i != boundary {
                    return Err((
                        "ledger.end-with-pending",
                        format!("end of input signalled at {} but {} bytes since the last boundary are unaccounted", i, i - boundary),
                    ));
                }
            }
            Item::Msg(m) => {
                let f = refenc(m);
                if stream[boundary..i] != f[..] {
                    return Err((
                        "ledger.delivered-range",
                        format!(
                            "Ok({}B) at {}: bytes since the previous boundary {} ({} bytes) are not exactly the canonical frame ({} bytes)",
                            m.len(),
                            i,
                            boundary,
                            i - boundary,
                            f.len()
                        ),
                    ));
                }
                boundary = i;
            }
            Item::Dec(DErr::Discarded(n)) => {
                // mid-stream report: triggered by the start sequence that just completed
                let is_start = i >= 8 && stream[i - 8..i] == START;
                if is_start && i - 8 >= boundary && *n == i - 8 - boundary && *n > 0 {
                    boundary = i - 8;
                } else {
                    return Err((
                        "ledger.discarded-count",
                        format!(
                            "DiscardedBytes({}) at {}: previous boundary {}, start sequence just completed: {} (expected {})",
                            n,
                            i,
                            boundary,
                            is_start,
                            (i as i64) - 8 - boundary as i64
                        ),
                    ));
                }
            }
            Item::Fin(DErr::Discarded(n)) => {
                if *n == i - boundary && *n > 0 {
                    boundary = i;
                } else {
                    return Err((
                        "ledger.final-count",
                        format!("final DiscardedBytes({}) at {}: previous boundary {} (expected {})", n, i, boundary, i - boundary),
                    ));
                }
            }
            Item::Fin(e) => {
                return Err(("ledger.finalize-variant", format!("finalize() returned {:?}", e)));
            }
            Item::Dec(_) => {
                // rejecting error: the rejected range is [boundary, i)
                boundary = i;
            }
            Item::Reset(n) => {
                if *n != i - boundary {
                    return Err((
                        "ledger.reset-count",
                        format!("reset() returned {} at {}, previous boundary {} (expected {})", n, i, boundary, i - boundary),
                    ));
                }
                boundary = i;
            }
            Item::Io(IoKind::WouldBlock, n) => {
                if *n != 0 {
                    return Err(("ledger.wouldblock-count", format!("WouldBlock carried a discard count of {}", n)));
                }
            }
            Item::Io(_, n) => {
                if *n != i - boundary {
                    return Err((
                        "ledger.ioerr-count",
                        format!("IoErr(_, {}) at {}, previous boundary {} (expected {})", n, i, boundary, i - boundary),
                    ));
                }
                boundary = i;
            }
            Item::File(_) | Item::Parse(_) | Item::Events(..) => {
                return Err(("ledger.unexpected-item", "parsed items are not part of the ledger".into()));
            }
        }
    }
    if require_tiling && boundary != stream.len() {
        return Err((
            "ledger.tiling",
            format!("the reported ranges end at {} but the stream has {} bytes", boundary, stream.len()),
        ));
    }
    Ok(())
}

pub fn ops_desc(ops: &[(usize, PushOp)]) -> String {
    format!("{:?}", ops)
}

pub fn default_buf_for(fe: Fe) -> BufKind {
    match fe {
        Fe::Decode => BufKind::Vec,
        _ => BufKind::Vec,
    }
}
