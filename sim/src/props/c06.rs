//! C06 — parser totality and input-proportional memory.

use super::c04::file_exec;
use super::*;
use crate::core::{Outcome, Prop, Stats, Tier, Violation};
use crate::hexbytes::Hx;
use crate::rng::Rng;
use crate::scn::{FileScn, MsgScn, Scenario, Seal};
use crate::smlgen::{self, Emphasis};

pub struct C06Prop;
pub static C06: C06Prop = C06Prop;

pub const MEM_FACTOR: u64 = 256;
pub const MEM_CONST: u64 = 4096;

impl Prop for C06Prop {
    fn id(&self) -> &'static str {
        "C06"
    }
    fn runs(&self, tier: Tier) -> u64 {
        match tier {
            Tier::Quick => 200_000,
            Tier::Thorough => 20_000_000,
        }
    }
    fn unoptimised_share(&self, tier: Tier) -> f64 {
        match tier {
            Tier::Quick => 0.1,
            Tier::Thorough => 0.01,
        }
    }
    fn rule(&self) -> &'static str {
        "valid files (generated or real transmissions) in which TLFs are replaced by ones declaring 2^4 .. 2^32-1 and >= 2^32 (9-12 nibbles, incl. values wrapping to the original length mod 2^32), at every TLF position incl. list counts, plus the C04 fault mix (structural mutations incl. hollow lists, seal faults, byte faults incl. runs of 40 .. 70 000 equal bytes / repeated small valid messages, lists of 2^16 entries, files of 2^12 messages); both parsers run under the accounting allocator, size_hint is asked before every poll; the directed corpus and a share of the seeded runs are repeated in the unoptimised build on an 8 MiB stack. Directed: every TLF site of a base set x every inflation value. Non-trivial = at least one fault applied; distinct = scenario fingerprint"
    }
    fn assumptions(&self) -> Vec<&'static str> {
        vec![
            "'a constant multiple of the input length' is read as bytes requested (cumulative) and peak live bytes <= 256*|x| + 4096: an 88-byte ListEntry costs >= 8 wire bytes, so any input-proportional strategy stays well below; a declared-length allocation exceeds it once the declared count is above about 3*|x|+47",
            "zero allocations are measured inside Parser::new and Parser::next only (the harness stores events outside the scope)",
            "requests >= 1 GiB are served from mmap(MAP_NORESERVE) so that they are measured instead of aborting",
            "overflow-checks=on: a wrapping counter is a panic",
        ]
    }
    fn required_probes(&self, _tier: Tier) -> Vec<&'static str> {
        vec!["fault.struct.inflate-tlf", "fault.struct.wrap-length", "probe.list-count-inflated", "probe.complete.ok"]
    }

    fn directed(&self, _tier: Tier) -> Vec<Scenario> {
        // the shared enumeration (every truncation / single-bit flip of the base set, declared counts
        // beyond the entries present), then every TLF site of two small base files x every inflation value
        let mut v = super::c04::enum_corpus("C06", _tier, 1);
        for s in 0..2u64 {
            let mut rng = Rng::new(0xC06_0000 + s);
            let (_, _, msgs) = smlgen::gen_valid(&mut rng, 2);
            for (mi, m) in msgs.iter().enumerate() {
                for site in smlgen::walk_sites(&m.body) {
                    for val in smlgen::INFLATE_VALUES {
                        let mut nib = 1;
                        while nib < 32 && (val >> (4 * nib)) != 0 {
                            nib += 1;
                        }
                        let mut b = m.body.0.clone();
                        b.splice(site.off..site.off + site.tlf_size, smlgen::tlf_raw(site.ty, val, nib));
                        let mut ms: Vec<MsgScn> = msgs.clone();
                        ms[mi] = MsgScn { body: Hx(b), seal: Seal::Good };
                        v.push(Scenario::File(FileScn {
                            prop: "C06".into(),
                            sub: "resealed".into(),
                            msgs: ms,
                            post: vec![],
                            extra_polls: 1,
                            notes: vec![format!("msg{}:inflate-tlf(ty={},off={},v={:#x})", mi, site.ty, site.off, val)],
                        }));
                    }
                }
            }
        }
        v
    }

    fn gen(&self, rng: &mut Rng, tier: Tier) -> Scenario {
        let em = if rng.chance(2, 3) { Emphasis::inflation() } else { Emphasis::balanced() };
        Scenario::File(smlgen::gen_file_scn(rng, tier, "C06", &em))
    }

    fn exec(&self, scn: &Scenario, st: &mut Stats) -> Outcome {
        file_exec(scn, st, &|r, x, f, st| {
            if f.notes.iter().any(|n| n.contains("inflate-tlf(ty=7") || n.contains("wrap-length(ty=7")) {
                st.bump("probe", "list-count-inflated");
            }
            let bound = MEM_FACTOR * x.len() as u64 + MEM_CONST;
            st.max("complete.bytes_requested", r.complete_alloc.bytes);
            st.max("complete.max_single_request", r.complete_alloc.max_request);
            if r.complete_alloc.giants > 0 {
                st.bump("probe", "giant-request-served-by-mmap");
            }
            if let Err(v) = &r.complete {
                return Some(Violation {
                    class: "panic".into(),
                    clause: format!("C06.complete-{}", v.clause),
                    detail: format!("complete::parse panicked on a {}-byte input: {} [{}]", x.len(), v.detail, f.notes.join(", ")),
                });
            }
            if let Some(v) = &r.stream_panic {
                return Some(Violation {
                    class: "panic".into(),
                    clause: format!("C06.streaming-{}", v.clause),
                    detail: format!("streaming::Parser panicked on a {}-byte input: {} [{}]", x.len(), v.detail, f.notes.join(", ")),
                });
            }
            if r.complete_alloc.bytes > bound || r.complete_alloc.peak_live > bound {
                return Some(Violation::oracle(
                    "C06.memory-not-input-proportional",
                    format!(
                        "complete::parse requested {} bytes in {} allocation(s) (largest {}, peak live {}) for an input of {} bytes (bound {}); [{}]",
                        r.complete_alloc.bytes,
                        r.complete_alloc.calls,
                        r.complete_alloc.max_request,
                        r.complete_alloc.peak_live,
                        x.len(),
                        bound,
                        f.notes.join(", ")
                    ),
                ));
            }
            if r.stream_alloc.calls > 0 {
                return Some(Violation::oracle(
                    "C06.streaming-parser-allocates",
                    format!("streaming::Parser made {} allocator call(s) ({} bytes)", r.stream_alloc.calls, r.stream_alloc.bytes),
                ));
            }
            if r.hint_overpromise > 0 {
                // a consumer that trusts the hint (collect, extend) sizes its memory by it: the
                // lower bound may never exceed what the input can still deliver
                return Some(Violation::oracle(
                    "C06.size-hint-from-declared-length",
                    format!(
                        "streaming::Parser::size_hint() promised up to {} item(s) more than were produced (largest lower bound {}, input {} bytes); [{}]",
                        r.hint_overpromise,
                        r.hint_max_lower,
                        x.len(),
                        f.notes.join(", ")
                    ),
                ));
            }
            if r.budget_exhausted {
                return Some(Violation::oracle(
                    "C06.streaming-does-not-terminate",
                    format!("streaming::Parser yielded more than |x|+1 = {} items without ending", x.len() + 1),
                ));
            }
            None
        })
    }
}
