//! C02 — decoder soundness under corruption and a Byzantine sender.

use super::*;
use crate::core::{Outcome, Prop, Stats, Tier, Violation};
use crate::fe::{self, AppPlan, BufKind, Call, Fe, SrcState, LADDER};
use crate::gen::{self, StreamMix};
use crate::rng::Rng;
use crate::scn::{build_stream, LinkScn, Scenario, Seg};

pub struct C02Prop;
pub static C02: C02Prop = C02Prop;

/// the safety clause, also used by C16: every delivered payload is preceded by exactly its canonical frame
pub fn check_sound(stream: &[u8], obs: &[Obs], has_pos: bool) -> Result<usize, String> {
    let mut delivered = 0;
    let mut search_from = 0usize; // for front-ends without positions
    for o in obs {
        if let Item::Msg(m) = &o.item {
            delivered += 1;
            let f = refenc(m);
            if has_pos {
                let i = o.pos;
                if i > stream.len() || i < f.len() || stream[i - f.len()..i] != f[..] {
                    return Err(format!(
                        "Ok({}) reported after {} bytes, but the bytes consumed so far do not end with the canonical frame of that payload ({} bytes); consumed tail: {}",
                        crate::hexbytes::hex(&m[..m.len().min(32)]),
                        i,
                        f.len(),
                        crate::hexbytes::hex(&stream[i.min(stream.len()).saturating_sub(f.len().min(40))..i.min(stream.len())])
                    ));
                }
            } else {
                // no positions: the canonical frames must occur in the stream, in order, without overlap
                let mut found = None;
                let mut k = search_from;
                while k + f.len() <= stream.len() {
                    if stream[k..k + f.len()] == f[..] {
                        found = Some(k + f.len());
                        break;
                    }
                    k += 1;
                }
                match found {
                    Some(e) => search_from = e,
                    None => {
                        return Err(format!(
                            "Ok({}) reported, but its canonical frame ({} bytes) does not occur in the stream after offset {}",
                            crate::hexbytes::hex(&m[..m.len().min(32)]),
                            f.len(),
                            search_from
                        ))
                    }
                }
            }
        }
    }
    Ok(delivered)
}

fn trailing_1b(m: &[u8]) -> usize {
    m.iter().rev().take_while(|b| **b == 0x1b).count()
}

impl Prop for C02Prop {
    fn id(&self) -> &'static str {
        "C02"
    }
    fn runs(&self, tier: Tier) -> u64 {
        match tier {
            Tier::Quick => 200_000,
            Tier::Thorough => 20_000_000,
        }
    }
    fn crash_is_violation(&self) -> bool {
        false
    }
    fn rule(&self) -> &'static str {
        "1-5 segments per run drawn from {intact frame, frame with 1-3 link faults (bit flip, overwrite biased to 00/1b/01/1a, loss, duplication, insertion, chunk replay, reordering; placement biased to end sequence / 1b runs / zero tail / padding), noise, junk, cut-off frame, Byzantine frame re-sealed with a CRC valid for a wrong framing (wrong pad count, pad>3, pad>zero run, non-zero pad bytes, misaligned end, shifted end, unescaped 1b run, restart with CRC of whole/tail, invalid escape)} through one of 7 front-ends and a random buffer (also too small). Non-trivial = at least one link fault fired or a Byzantine/cut segment present; distinct = distinct scenario fingerprint"
    }
    fn assumptions(&self) -> Vec<&'static str> {
        vec![
            "pure safety oracle: nothing is asserted about errors or undelivered frames; crashes are counted (aborted_runs_not_attributed) and left to C05",
            "front-ends that hide the read position (decode, reader over slice) are checked with the weaker in-order-occurrence clause",
        ]
    }
    fn required_probes(&self, _tier: Tier) -> Vec<&'static str> {
        vec![
            "probe.reject.crc-ok.misaligned",
            "probe.reject.crc-ok.pad>3",
            "probe.reject.crc-ok.pad>zeros-or-nonzero-pad",
            "probe.reject.invalid-esc",
            "probe.restart-inside-frame",
            "probe.realign-path-delivered",
            "probe.delivered-next-to-fault",
        ]
    }

    fn directed(&self, tier: Tier) -> Vec<Scenario> {
        // every single link fault at every position of three base frames (then a second, intact frame)
        use crate::scn::{Enc, WireFault};
        let mut v = Vec::new();
        let bases: [&[u8]; 3] = [&[0x12, 0x34, 0x56, 0x78], &[0x01, 0x1b, 0x1b, 0x1b, 0x1b, 0x02, 0x00, 0x00], &[0x1b, 0x00, 0x1b]];
        let fes = [Fe::Push, Fe::Streaming, Fe::RdIter, Fe::RdIo, Fe::Decode, Fe::RdSlice];
        let mut k = 0usize;
        for b in bases {
            let flen = refenc(b).len();
            for at in 0..flen {
                let mut faults: Vec<WireFault> = vec![WireFault::Del { at }, WireFault::Dup { at }];
                for val in [0x00u8, 0x1b, 0x01, 0x1a] {
                    faults.push(WireFault::Set { at, val });
                    faults.push(WireFault::Ins { at, val });
                }
                let bits: &[u8] = if tier == Tier::Thorough { &[0, 1, 2, 3, 4, 5, 6, 7] } else { &[0, 3, 7] };
                for bit in bits {
                    faults.push(WireFault::Flip { at, bit: *bit });
                }
                for len in [1usize, 2, 3, 4] {
                    faults.push(WireFault::DupChunk { from: at, len, to: at + len });
                }
                for w in faults {
                    let fe = fes[k % fes.len()];
                    k += 1;
                    let mut l = LinkScn::new("C02", "directed-single-fault", fe, BufKind::Vec);
                    l.segs.push(Seg::Frame { payload: crate::hexbytes::Hx(b.to_vec()), enc: Enc::Ref, faults: vec![w] });
                    l.segs.push(Seg::Frame { payload: crate::hexbytes::Hx(vec![0xaa, 0xbb]), enc: Enc::Ref, faults: vec![] });
                    v.push(Scenario::Link(l));
                }
            }
        }
        // checksum brute force over frame-like prefixes x small capacities
        let mut rng = Rng::new(0xC02B);
        let nprefix = if tier == Tier::Thorough { 400 } else { 40 };
        for i in 0..nprefix {
            // data (aligned or not), optionally with literal escapes near the end, then an end sequence
            let mut p = crate::refenc::START.to_vec();
            let n = rng.below(12);
            let mut data = gen::payload_tokens(&mut rng, n);
            if i % 2 == 0 {
                let k = 4 * rng.below(3);
                data.truncate(k);
                while data.len() < k {
                    data.push(0x40 + data.len() as u8);
                }
            }
            p.extend_from_slice(&data);
            if i % 5 == 4 {
                // inside the open frame: an escape code that looks like a restart but is none,
                // followed by a body - only a decoder that took it for a restart will find a
                // checksum it likes
                p.extend_from_slice(&[0x1b; 4]);
                let code: [u8; 4] = [[0x01, 0x02, 0x03, 0x04], [0x01, 0x01, 0x01, 0x00], [0x01, 0xff, 0x01, 0x01], [0x01, 0x01, 0x1b, 0x01]][rng.below(4)];
                p.extend_from_slice(&code);
                let m = 4 * rng.below(3);
                for k in 0..m {
                    p.push(0x60 + k as u8);
                }
            }
            match i % 4 {
                0 => p.extend_from_slice(&[0x1b; 8]),
                1 => {
                    p.extend_from_slice(&[0x1b; 8]);
                    p.extend(std::iter::repeat(0x1b).take(rng.range(1, 3)));
                }
                2 => p.extend(std::iter::repeat(0x00).take(rng.below(5))),
                _ => {}
            }
            p.extend_from_slice(&[0x1b, 0x1b, 0x1b, 0x1b, 0x1a, rng.below(4) as u8]);
            let body_len = p.len() - 8 - 6;
            for buf in [BufKind::Vec, BufKind::Arr(body_len.saturating_sub(1).min(40)), BufKind::Arr(body_len.saturating_sub(5).min(40)), BufKind::Arr((body_len + 3).min(40))] {
                let mut l = LinkScn::new("C02", "crc-bruteforce", Fe::Push, buf);
                l.segs.push(Seg::Raw(crate::hexbytes::Hx(p.clone())));
                l.knobs.insert("crc_bruteforce".into(), 1);
                v.push(Scenario::Link(l));
            }
            // ... and in front of it a transmission that the caller abandons (reset / finalize) right
            // behind its start sequence or a few bytes later: whatever the decoder still remembers of it
            // (a running checksum, a length), one of the 65536 checksums will suit that memory
            if i % 2 == 1 {
                for variant in 0..3 {
                    let extra = *rng.pick(&[0usize, 0, 0, 1, 3, 4, 5]);
                    let op = *rng.pick(&[crate::fe::PushOp::Reset, crate::fe::PushOp::Finalize]);
                    let mut q = crate::refenc::START.to_vec();
                    q.extend((0..extra).map(|k| 0x31 + k as u8));
                    let at = q.len();
                    if variant < 2 {
                        // a frame that is delivered for exactly one checksum: aligned data, no padding
                        q.extend_from_slice(&crate::refenc::START);
                        let k = 4 * rng.below(4);
                        q.extend((0..k).map(|j| 0x41 + j as u8));
                        q.extend_from_slice(&[0x1b, 0x1b, 0x1b, 0x1b, 0x1a, 0x00]);
                    } else {
                        q.extend_from_slice(&p);
                    }
                    let mut l = LinkScn::new("C02", "crc-bruteforce-after-abort", Fe::Push, BufKind::Vec);
                    l.segs.push(Seg::Raw(crate::hexbytes::Hx(q)));
                    l.ops = vec![(at, op)];
                    l.knobs.insert("crc_bruteforce".into(), 1);
                    v.push(Scenario::Link(l));
                }
            }
        }
        v
    }

    fn gen(&self, rng: &mut Rng, tier: Tier) -> Scenario {
        let fe = *rng.pick(&[Fe::Push, Fe::Decode, Fe::Streaming, Fe::RdSlice, Fe::RdIter, Fe::RdIo, Fe::RdEh]);
        let mix = StreamMix::draw(rng, 400);
        let segs = gen::gen_segs(rng, tier, &mix);
        let buf = if fe == Fe::Decode {
            BufKind::Vec
        } else {
            match rng.below(5) {
                0 => BufKind::Vec,
                1 if fe.is_reader() => BufKind::Default,
                2 => BufKind::Arr(*rng.pick(&LADDER[..41])),
                _ => BufKind::Arr(*rng.pick(&[512usize, 1024, 4096])),
            }
        };
        let mut l = LinkScn::new("C02", "corrupting-link", fe, buf);
        l.segs = segs;
        if rng.chance(1, 150) {
            // one frame that carries a run of 2^16 and more zero or 1b bytes *inside* its payload
            // (whatever counts withheld zeros or escapes must not be a 16-bit quantity), growable buffer
            let run = *rng.pick(&[65_535usize, 65_536, 65_537, 65_600]);
            let b = *rng.pick(&[0u8, 0, 0x1b]);
            let mut p = gen::gen_payload_upto(rng, 12);
            p.extend(std::iter::repeat(b).take(run));
            let tail = gen::gen_payload_upto(rng, 12);
            p.extend_from_slice(&tail);
            let at = rng.below(l.segs.len() + 1);
            l.segs.insert(at, crate::scn::Seg::Frame { payload: crate::hexbytes::Hx(p), enc: crate::scn::Enc::Ref, faults: vec![] });
            l.buf = BufKind::Vec;
            l.sub = "corrupting-link+64k-run".into();
        }
        l.extra_polls = rng.below(3);
        // the application and the source misbehave too: soundness must not depend on them
        let len = build_stream(&l.segs).stream.len();
        match fe {
            Fe::Push if rng.chance(1, 3) => {
                let k = rng.range(1, 4);
                let marks = gen::marks_of(&l.segs);
                l.ops = gen::gen_push_ops_biased(rng, len, k, &marks);
                l.sub = "corrupting-link+api-calls".into();
            }
            Fe::RdIo if rng.chance(1, 3) => {
                let k = rng.range(1, 5);
                l.src = gen::gen_src_faults(rng, len, k, &[crate::fe::SrcFault::WouldBlock, crate::fe::SrcFault::Interrupted, crate::fe::SrcFault::Other(0), crate::fe::SrcFault::Eof(0)]);
                l.sub = "corrupting-link+source-faults".into();
            }
            Fe::RdEh if rng.chance(1, 3) => {
                let k = rng.range(1, 5);
                l.src = gen::gen_src_faults(rng, len, k, &[crate::fe::SrcFault::WouldBlock, crate::fe::SrcFault::Other(0)]);
                l.sub = "corrupting-link+source-faults".into();
            }
            _ => {}
        }
        if !l.src.is_empty() {
            let marks = gen::marks_of(&l.segs);
            gen::bias_src(rng, &mut l.src, &marks);
        }
        if buf == BufKind::Vec && matches!(fe, Fe::Push) && rng.chance(1, 4) {
            l.alloc_fail = rng.range(1, 10) as u64;
        }
        Scenario::Link(l)
    }

    fn exec(&self, scn: &Scenario, st: &mut Stats) -> Outcome {
        let l = link(scn);
        if l.knob("crc_bruteforce") == 1 {
            return exec_bruteforce(l, st);
        }
        let built = build_stream(&l.segs);
        count_wire_faults(st, &built);
        let stream = &built.stream;
        st.bump("cfg.fe", l.fe.name());
        let obs = match l.fe {
            Fe::Push => fe::drive_push_kind(l.buf, stream, &l.ops, l.alloc_fail, true),
            Fe::Decode => fe::drive_decode(stream),
            Fe::Streaming => fe::drive_streaming_kind(l.buf, stream, l.extra_polls),
            _ => {
                let ss = SrcState::new(stream, &l.src);
                let plan = AppPlan {
                    calls: &[Call::NEXT_BYTES],
                    extra_polls: l.extra_polls,
                    alloc_fail: 0,
                };
                fe::run_reader(l.fe, l.buf, &ss, &plan, true).0
            }
        };
        let mut violation = None;
        match check_sound(stream, &obs, l.fe.has_pos()) {
            Err(d) => {
                violation = Some(Violation::oracle(
                    "C02.payload-without-canonical-frame",
                    format!("front-end {} buffer {:?}: {}", l.fe.name(), l.buf, d),
                ))
            }
            Ok(n) => {
                st.add("probe", "delivered", n as u64);
            }
        }
        // probes: which rejection reasons were reached behind a valid CRC
        for o in &obs {
            match &o.item {
                Item::Dec(DErr::InvalidMsg {
                    read_crc,
                    calc_crc,
                    misaligned,
                    pad,
                    invalid_pad,
                }) => {
                    if read_crc == calc_crc {
                        if *misaligned {
                            st.bump("probe", "reject.crc-ok.misaligned");
                        }
                        if *pad > 3 {
                            st.bump("probe", "reject.crc-ok.pad>3");
                        }
                        if *invalid_pad {
                            st.bump("probe", "reject.crc-ok.pad>zeros-or-nonzero-pad");
                        }
                    } else {
                        st.bump("probe", "reject.crc-mismatch");
                    }
                }
                Item::Dec(DErr::InvalidEsc(_)) => st.bump("probe", "reject.invalid-esc"),
                Item::Dec(DErr::Oom) => st.bump("probe", "reject.oom"),
                Item::Dec(DErr::Discarded(_)) => {
                    if o.pos != usize::MAX && o.pos >= 16 {
                        // a start sequence seen while a frame was in progress?
                        let before = &stream[..o.pos - 8];
                        if crate::refenc::start_positions(before).last().is_some() {
                            st.bump("probe", "restart-inside-frame");
                        }
                    }
                }
                Item::Msg(m) => {
                    let t = trailing_1b(m) % 4;
                    if t > 0 && m.len() % 4 == 0 {
                        st.bump("probe", "realign-path-delivered");
                    }
                }
                _ => {}
            }
        }
        let any_fault = !built.fired.is_empty() || !l.ops.is_empty() || !l.src.is_empty();
        let byz = l.segs.iter().any(|s| matches!(s, Seg::Raw(_) | Seg::Cut { .. }));
        if any_fault && obs.iter().any(|o| matches!(o.item, Item::Msg(_))) {
            st.bump("probe", "delivered-next-to-fault");
        }
        finish(st, &obs, violation, any_fault || byz, (stream.len() + obs.len()) as u64)
    }
}


/// The attacker who "recomputes checksums for any framing", taken literally: a frame-like prefix
/// ending in `1b1b1b1b 1a pp` is completed with every one of the 65536 possible checksums.  Whatever
/// the decoder's idea of the checksummed bytes is, one of them matches it - and then a payload may
/// be reported only if the whole stream ends in its canonical frame.
fn exec_bruteforce(l: &LinkScn, st: &mut Stats) -> Outcome {
    let prefix = match l.segs.first() {
        Some(Seg::Raw(b)) => b.0.clone(),
        _ => return Outcome::default(),
    };
    let mut stream = prefix.clone();
    stream.extend_from_slice(&[0, 0]);
    let n = stream.len();
    let mut violation = None;
    let mut delivered = 0u64;
    let mut last_obs = Vec::new();
    for crc in 0..=0xffffu32 {
        stream[n - 2] = (crc & 0xff) as u8;
        stream[n - 1] = (crc >> 8) as u8;
        let obs = fe::drive_push_kind(l.buf, &stream, &l.ops, 0, true);
        if obs.iter().any(|o| matches!(o.item, Item::Msg(_))) {
            delivered += 1;
            if let Err(d) = check_sound(&stream, &obs, true) {
                if violation.is_none() {
                    violation = Some(Violation::oracle(
                        "C02.payload-without-canonical-frame",
                        format!("checksum brute force, buffer {:?}, checksum bytes {:02x} {:02x}: {}", l.buf, stream[n - 2], stream[n - 1], d),
                    ));
                }
            }
            last_obs = obs;
        }
    }
    st.bump("probe", "crc-bruteforce-scenarios");
    if !l.ops.is_empty() {
        st.bump("probe", "crc-bruteforce-after-abort");
    }
    st.add("probe", "crc-bruteforce-accepted", delivered);
    st.add("counters", "crc-bruteforce-decoder-runs", 65536);
    finish(st, &last_obs, violation, true, 65536 * stream.len() as u64)
}
