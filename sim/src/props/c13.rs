//! C13 — streaming parser: bounded liveness after faults.

use super::c04::file_exec;
use super::filecommon::Poll;
use super::*;
use crate::core::{Outcome, Prop, Stats, Tier, Violation};
use crate::rng::Rng;
use crate::scn::Scenario;
use crate::smlgen::{self, Emphasis};

pub struct C13Prop;
pub static C13: C13Prop = C13Prop;

impl Prop for C13Prop {
    fn id(&self) -> &'static str {
        "C13"
    }
    fn runs(&self, tier: Tier) -> u64 {
        match tier {
            Tier::Quick => 200_000,
            Tier::Thorough => 20_000_000,
        }
    }
    fn rule(&self) -> &'static str {
        "Byzantine meter with faults biased into the middle of list responses (bad CRC, truncated list, corrupt entry, inflated count, missing end marker); the consumer polls 0, 1, 2, 5 or 64 more times after the first Err / None; a second consumer advances with nth(1..3) (what skip and step_by do) and polls on likewise. Non-trivial = at least one fault applied; distinct = scenario fingerprint"
    }
    fn assumptions(&self) -> Vec<&'static str> {
        vec!["the run is cut at |x| + 2 polls before the end, so a parser that never ends is reported as a violation with a replay file, not as a hang"]
    }
    fn required_probes(&self, _tier: Tier) -> Vec<&'static str> {
        vec!["probe.err-inside-message", "probe.err-at-message-start", "probe.polled-after-err", "probe.polled-after-none"]
    }

    fn directed(&self, tier: Tier) -> Vec<Scenario> {
        // every truncation / single-bit corruption of the base set, polled three more times
        super::c04::enum_corpus("C13", tier, 3)
    }

    fn gen(&self, rng: &mut Rng, tier: Tier) -> Scenario {
        let em = if rng.chance(3, 4) { Emphasis::mid_message() } else { Emphasis::inflation() };
        let mut s = smlgen::gen_file_scn(rng, tier, "C13", &em);
        if s.extra_polls == 0 && rng.chance(3, 4) {
            s.extra_polls = *rng.pick(&[1usize, 2, 5, 64, 300, 70_000]);
        }
        Scenario::File(s)
    }

    fn exec(&self, scn: &Scenario, st: &mut Stats) -> Outcome {
        file_exec(scn, st, &|r, x, f, st| {
            let ctx = format!("[{}] input of {} bytes", f.notes.join(", "), x.len());
            if let Some(v) = &r.stream_panic {
                return Some(Violation { class: "panic".into(), clause: format!("C13.{}", v.clause), detail: format!("{}; {}", v.detail, ctx) });
            }
            if r.budget_exhausted {
                return Some(Violation::oracle("C13.more-than-len-plus-1-items", format!("the iteration yielded more than |x|+1 = {} items without an Err or None; {}", x.len() + 1, ctx)));
            }
            let first_end = r.polls.iter().position(|p| *p != Poll::Event).unwrap_or(r.polls.len());
            if first_end > x.len() + 1 {
                return Some(Violation::oracle("C13.more-than-len-plus-1-items", format!("{} items; {}", first_end, ctx)));
            }
            let after = &r.polls[(first_end + 1).min(r.polls.len())..];
            if r.polls.get(first_end) == Some(&Poll::Err) {
                if r.reassembled.open_list || matches!(r.events.last(), Some(crate::smlref::REv::Start(..)) | Some(crate::smlref::REv::End(..))) {
                    st.bump("probe", "err-inside-message");
                } else {
                    st.bump("probe", "err-at-message-start");
                }
                if !after.is_empty() {
                    st.bump("probe", "polled-after-err");
                }
            } else if !after.is_empty() {
                st.bump("probe", "polled-after-none");
            }
            // the same clauses for a consumer that advances with nth(k) (`skip`, `step_by`)
            if let Some(v) = &r.nth_panic {
                return Some(Violation { class: "panic".into(), clause: format!("C13.nth.{}", v.clause), detail: format!("{}; {}", v.detail, ctx) });
            }
            if !r.nth_polls.is_empty() {
                st.bump("probe", "nth-consumer");
                let e = r.nth_polls.iter().position(|p| *p != Poll::Event).unwrap_or(r.nth_polls.len());
                if e == r.nth_polls.len() {
                    return Some(Violation::oracle("C13.more-than-len-plus-1-items", format!("a consumer advancing with nth({}) received {} items without an Err or None; {}", r.nth_step, e, ctx)));
                }
                if let Some(k) = r.nth_polls[e + 1..].iter().position(|p| *p != Poll::None) {
                    return Some(Violation::oracle(
                        "C13.item-after-end",
                        format!("a consumer advancing with nth({}) received {:?} as its item {} and then {:?} as item {} instead of None; {}", r.nth_step, r.nth_polls[e], e + 1, r.nth_polls[e + 1 + k], e + 2 + k, ctx),
                    ));
                }
            }
            if let Some(k) = after.iter().position(|p| *p != Poll::None) {
                let errs = r.polls.iter().filter(|p| **p == Poll::Err).count();
                return Some(Violation::oracle(
                    "C13.item-after-end",
                    format!(
                        "after the first {:?} (poll {}), poll {} returned {:?} instead of None ({} Err item(s) in {} polls); {}",
                        r.polls[first_end],
                        first_end + 1,
                        first_end + 2 + k,
                        after[k],
                        errs,
                        r.polls.len(),
                        ctx
                    ),
                ));
            }
            None
        })
    }
}
