//! C04 — parser soundness against a Byzantine meter.

use super::filecommon::*;
use super::*;
use crate::core::{Outcome, Prop, Stats, Tier, Violation};
use crate::hexbytes::{hex, Hx};
use crate::rng::Rng;
use crate::scn::{ByteOp, FileScn, MsgScn, Scenario, Seal};
use crate::smlgen::{self, Emphasis};

pub struct C04Prop;
pub static C04: C04Prop = C04Prop;

/// small base set for the directed enumeration: generated from fixed seeds + two corpus files
/// a file that uses every construct of the supported grammar once
fn kitchen_sink() -> crate::smlref::RFile {
    use crate::smlref::*;
    let e = |name: u8, value: RValue| REntry { name: Hx(vec![1, 0, name, 8, 0, 0xff]), status: None, val_time: None, unit: None, scaler: None, value, sig: None };
    let mut entries = vec![
        e(1, RValue::Bool(true)),
        e(2, RValue::Bytes(Hx(b"hello, meter 0123456789".to_vec()))),
        e(3, RValue::I8(-3)),
        e(4, RValue::I16(-300)),
        e(5, RValue::I32(-70000)),
        e(6, RValue::I64(-5_000_000_000)),
        e(7, RValue::U8(200)),
        e(8, RValue::U16(60000)),
        e(9, RValue::U32(4_000_000_000)),
        e(10, RValue::U64(0x1122_3344_5566_7788)),
        e(11, RValue::ListTime(0x0102_0304)),
        e(12, RValue::Bytes(Hx(vec![]))),
    ];
    entries[0].status = Some(RStatus::S8(0x82));
    entries[1].status = Some(RStatus::S16(0x0182));
    entries[2].status = Some(RStatus::S32(0x0001_0182));
    entries[3].status = Some(RStatus::S64(0x01_0000_0182));
    entries[4].val_time = Some(77);
    entries[5].unit = Some(30);
    entries[6].scaler = Some(-1);
    entries[7].sig = Some(Hx(vec![0xaa, 0xbb]));
    RFile {
        msgs: vec![
            RMsg { tid: Hx(vec![1, 2, 3, 4]), group: 0, abort: 0, body: RBody::Open { codepage: Some(Hx(vec![0x49])), client_id: Some(Hx(vec![9, 9])), req_file_id: Hx(vec![5, 6, 7]), server_id: Hx(vec![0x0a, 1, 2, 3, 4, 5, 6, 7, 8, 9]), ref_time: Some(123_456), version: Some(1) } },
            RMsg { tid: Hx(vec![1, 2, 3, 5]), group: 0, abort: 0, body: RBody::GetList { client_id: Some(Hx(vec![])), server_id: Hx(vec![0x0a, 1, 2, 3, 4, 5, 6, 7, 8, 9]), list_name: Some(Hx(vec![1, 0, 98, 10, 255, 255])), sensor_time: Some(1000), entries, sig: Some(Hx(vec![0xcc])), gateway_time: Some(2000) } },
            RMsg { tid: Hx(vec![1, 2, 3, 6]), group: 0, abort: 0, body: RBody::Close { sig: Some(Hx(vec![0xdd, 0xee])) } },
        ],
    }
}

fn base_set() -> Vec<Vec<MsgScn>> {
    let mut v = Vec::new();
    // every construct once, in the standard and in the vendor time encoding
    for (i, prof) in [
        smlgen::Profile::plain(),
        smlgen::Profile { nonminimal: 0, holley: 100, any_width: false, short_crc: false },
    ]
    .iter()
    .enumerate()
    {
        let mut rng = Rng::new(0xC04_5171 + i as u64);
        let f = kitchen_sink();
        let (bytes, msgs) = smlgen::encode_file(&f, &mut rng, prof);
        match crate::smlref::ref_read(&bytes) {
            Ok(t) if t == f => {}
            _ => panic!("HARNESS: the kitchen-sink base file does not read back"),
        }
        v.push(msgs);
    }
    for s in 0..4u64 {
        let mut rng = Rng::new(0xC04_0000 + s);
        let (_, _, msgs) = smlgen::gen_valid(&mut rng, 3);
        if !msgs.is_empty() {
            v.push(msgs);
        }
    }
    let c = smlgen::corpus();
    for f in c.iter().take(2) {
        v.push(f.iter().map(|b| MsgScn { body: Hx(b.clone()), seal: Seal::Good }).collect());
    }
    v
}

pub fn check_soundness(r: &ParserRun, x: &[u8]) -> Option<Violation> {
    let show = |x: &[u8]| if x.len() <= 96 { hex(x) } else { format!("{}..({} bytes)", hex(&x[..96]), x.len()) };
    match &r.reference {
        Err(why) => {
            if let Ok(Ok(f)) = &r.complete {
                return Some(Violation::oracle(
                    "C04.complete-accepts-malformed",
                    format!("the reference reader rejects the input ({}) but complete::parse returned a file with {} message(s); input {}", why.0, f.msgs.len(), show(x)),
                ));
            }
            if r.stream_panic.is_none() && r.stream_err.is_none() && !r.budget_exhausted {
                return Some(Violation::oracle(
                    "C04.streaming-accepts-malformed",
                    format!("the reference reader rejects the input ({}) but the streaming parser ended without an error after {} event(s); input {}", why.0, r.events.len(), show(x)),
                ));
            }
        }
        Ok(t) => {
            if let Ok(Ok(f)) = &r.complete {
                if f != t {
                    return Some(Violation::oracle(
                        "C04.complete-wrong-data",
                        format!("complete::parse returned data that differs from the independent reading of the same bytes; input {}", show(x)),
                    ));
                }
            }
            if r.stream_panic.is_none() && r.stream_err.is_none() && !r.budget_exhausted && r.reassembled.file != *t {
                return Some(Violation::oracle(
                    "C04.streaming-wrong-data",
                    format!("the streaming parser's events, reassembled, differ from the independent reading of the same bytes; input {}", show(x)),
                ));
            }
        }
    }
    None
}

pub fn file_exec(scn: &Scenario, st: &mut Stats, oracle: &dyn Fn(&ParserRun, &[u8], &FileScn, &mut Stats) -> Option<Violation>) -> Outcome {
    let f = file(scn);
    let x = f.bytes();
    st.add_dyn(format!("cfg.sub.{}", f.sub), 1);
    for n in &f.notes {
        if let Some(op) = n.split(':').nth(1) {
            let name = op.split('(').next().unwrap_or(op);
            st.add_dyn(format!("fault.struct.{}", name), 1);
        }
    }
    for p in &f.post {
        st.bump("fault.byte", p.name());
    }
    if f.msgs.iter().any(|m| m.seal == Seal::GoodShort && crate::refenc::crc16_x25(&m.body).swap_bytes() < 0x100) {
        st.bump("probe", "one-byte-crc-field");
    }
    let r = run_parsers(&x, f.extra_polls);
    let resealed = f.sub.starts_with("resealed") && f.post.is_empty();
    count_outcomes(st, &r, resealed);
    let violation = oracle(&r, &x, f, st);
    let obs: Vec<Obs> = vec![Obs {
        pos: x.len(),
        item: Item::Events(r.reassembled.file.clone(), r.stream_err.clone(), r.reassembled.protocol_error.is_none()),
    }];
    let mut o = finish(st, &obs, violation, f.sub != "valid", (x.len() * 3 + r.polls.len()) as u64);
    // identity of the run: polls + both parser outcomes
    o.hist_hash = crate::obs::hash_of(&(
        &r.polls,
        r.complete.as_ref().ok().map(|c| c.as_ref().map(crate::obs::hash_of).map_err(|e| e.variant.clone())),
        r.stream_err.as_ref().map(|e| e.variant.clone()),
        r.reference.is_ok(),
    ));
    if st.want_hist {
        o.hist = format!(
            " input {} bytes; reference: {}; complete: {}; streaming: {} events, end {:?}, polls after end {:?}",
            x.len(),
            match &r.reference { Ok(t) => format!("accept ({} msgs)", t.msgs.len()), Err(e) => format!("reject ({})", e.0) },
            match &r.complete { Ok(Ok(f)) => format!("Ok({} msgs)", f.msgs.len()), Ok(Err(e)) => format!("Err({})", e.variant), Err(v) => format!("PANIC {}", v.clause) },
            r.events.len(),
            r.stream_err.as_ref().map(|e| e.variant.clone()),
            &r.polls[r.polls.len().saturating_sub(f.extra_polls.min(4))..]
        );
    }
    o
}

impl Prop for C04Prop {
    fn id(&self) -> &'static str {
        "C04"
    }
    fn level(&self) -> &'static str {
        "fault_enumeration"
    }
    fn crash_is_violation(&self) -> bool {
        false
    }
    fn runs(&self, tier: Tier) -> u64 {
        match tier {
            Tier::Quick => 200_000,
            Tier::Thorough => 20_000_000,
        }
    }
    fn rule(&self) -> &'static str {
        "directed part (enumeration): for each file of a base set (4 generated + 2 real meter transmissions) every single-byte truncation, every single-bit flip without re-seal, and every single-bit flip inside a message body with the message CRC re-sealed; seeded part: valid files (abstract model under a firmware profile: integer widths, non-minimal / multi-byte TLFs, optional masks, list lengths across 15/16, Holley time encoding, short CRC field; or real transmissions) hit by 1-3 structural mutations (TLF inflation to 2^4..>=2^32 incl. values wrapping mod 2^32, field deletion / duplication, type nibble, arity +-1, tag, bit flip, byte set, truncation, junk) re-sealed with a valid CRC, seal faults (bad CRC, wrong / missing end marker) and un-resealed byte faults (flip, set, truncate, extend incl. a further valid message, delete, insert). Non-trivial = at least one fault applied; distinct = scenario fingerprint"
    }
    fn assumptions(&self) -> Vec<&'static str> {
        vec![
            "the reference reader (DESIGN 5.1) is the harness's independent reading of the supported SML subset plus the documented Holley workaround",
            "the converse (accepted inputs must parse) is C03 and is not asserted here",
            "panics are counted (aborted_runs_not_attributed / probes) and left to C06",
        ]
    }
    fn required_probes(&self, _tier: Tier) -> Vec<&'static str> {
        vec![
            "probe.ref.accept",
            "probe.resealed-reached.TlfMismatch",
            "probe.resealed-reached.UnexpectedEOF",
            "probe.resealed-reached.MsgEndMismatch",
            "probe.resealed-reached.UnexpectedVariant",
            "probe.resealed-reached.InvalidTlf(TlfLengthOverflow)",
            "probe.resealed-reached.InvalidTlf(TlfLengthUnderflow)",
            "probe.resealed-reached.InvalidTlf(TlfInvalidTy)",
            "probe.resealed-reached.InvalidTlf(TlfNextByteTypeMismatch)",
            "probe.resealed-reached.InvalidTlf(TlfReserved)",
            "probe.complete.err.CrcMismatch",
        ]
    }

    fn directed(&self, tier: Tier) -> Vec<Scenario> {
        enum_corpus("C04", tier, 1)
    }

    fn gen(&self, rng: &mut Rng, tier: Tier) -> Scenario {
        Scenario::File(smlgen::gen_file_scn(rng, tier, "C04", &Emphasis::balanced()))
    }

    fn exec(&self, scn: &Scenario, st: &mut Stats) -> Outcome {
        file_exec(scn, st, &|r, x, _f, st| {
            if r.complete.is_err() || r.stream_panic.is_some() {
                st.bump("probe", "panic-left-to-C06");
            }
            check_soundness(r, x)
        })
    }
}

/// the enumeration corpus shared by the FILE-engine properties: every truncation, every
/// (quick: every third) single-bit flip without re-seal, and every such flip inside a message
/// body with the CRC re-sealed, over a small base set
/// list responses whose value list declares more entries than follow (re-sealed): minimal
/// 8-byte entries and ordinary ones, as last message and followed by another one
pub fn declared_count_corpus(prop: &str, extra_polls: usize) -> Vec<Scenario> {
    use crate::smlref::{RBody, REntry, RMsg, RValue};
    let mut v = Vec::new();
    let mut rng = Rng::new(0xC04D);
    let minimal = REntry { name: Hx(vec![]), status: None, val_time: None, unit: None, scaler: None, value: RValue::Bytes(Hx(vec![])), sig: None };
    for k in 0..7usize {
        for shape in 0..3 {
            let mut entries: Vec<REntry> = (0..k).map(|_| minimal.clone()).collect();
            if shape == 1 && k > 0 {
                entries[k - 1].value = RValue::U8(7);
            }
            if shape == 2 {
                for e in entries.iter_mut() {
                    e.unit = Some(30);
                    e.value = RValue::U16(0x1234);
                }
            }
            for gw in [None, Some(5u32)] {
                let m = RMsg {
                    tid: Hx(vec![1, 2, 3]),
                    group: 0,
                    abort: 0,
                    body: RBody::GetList { client_id: None, server_id: Hx(vec![9]), list_name: None, sensor_time: None, entries: entries.clone(), sig: None, gateway_time: gw },
                };
                let body = smlgen::encode_body(&m, &mut rng, &smlgen::Profile::plain());
                // the value-list TLF is the single-byte list TLF that declares k entries, right after
                // the four header fields of the list response
                let sites = smlgen::walk_sites(&body);
                let Some(site) = sites.iter().find(|s| s.ty == smlgen::TY_LIST && s.depth == 3 && s.len == k) else { continue };
                for declared in [k + 1, k + 2, 2 * k + 1, 15, 16, 255, 65_535, 0x2000_0000usize + k] {
                    let mut b = body.clone();
                    b.splice(site.off..site.off + site.tlf_size, smlgen::tlf(smlgen::TY_LIST, declared, 0));
                    for follow in [false, true] {
                        let mut msgs = vec![MsgScn { body: Hx(b.clone()), seal: Seal::Good }];
                        if follow {
                            let c = RMsg { tid: Hx(vec![4]), group: 0, abort: 0, body: RBody::Close { sig: None } };
                            msgs.push(MsgScn { body: Hx(smlgen::encode_body(&c, &mut rng, &smlgen::Profile::plain())), seal: Seal::Good });
                        }
                        v.push(Scenario::File(FileScn {
                            prop: prop.into(),
                            sub: "resealed".into(),
                            msgs,
                            post: vec![],
                            extra_polls,
                            notes: vec![format!("msg0:declared-count(entries={},declared={})", k, declared)],
                        }));
                    }
                }
            }
        }
    }
    v
}

/// One list response that is longer than 2^16 bytes (9 400 small entries) and one whose list has
/// more than 2^16 entries, each intact, cut at and around the 2^16th byte, and with a declared
/// count that is larger than the number of entries present (re-sealed): offsets, lengths and
/// counts inside one message pass every 16-bit limit.
pub fn big_message_corpus(prop: &str, extra_polls: usize) -> Vec<Scenario> {
    use crate::smlref::{RBody, REntry, RMsg, RValue};
    let mut v = Vec::new();
    let mut rng = Rng::new(0xB16);
    // (entries of 10 bytes, and entries of exactly 16 bytes: a period that divides 2^16, so that an
    // offset that wraps lands on an entry boundary again)
    for (n, wide) in [(9_400usize, false), (4_200, true), (65_540, false)] {
        let entries: Vec<REntry> = (0..n)
            .map(|i| {
                if wide {
                    REntry { name: Hx(vec![1, 0, (i % 251) as u8, 8, 0, 0xff]), status: None, val_time: None, unit: None, scaler: None, value: RValue::U16(0x8000 | (i % 0x7fff) as u16), sig: None }
                } else {
                    REntry { name: Hx(vec![(i % 251) as u8]), status: None, val_time: None, unit: None, scaler: None, value: RValue::U8((i % 256) as u8), sig: None }
                }
            })
            .collect();
        let m = RMsg {
            tid: Hx(vec![1, 2, 3]),
            group: 0,
            abort: 0,
            body: RBody::GetList { client_id: None, server_id: Hx(vec![9]), list_name: None, sensor_time: None, entries, sig: None, gateway_time: None },
        };
        let body = smlgen::encode_body(&m, &mut rng, &smlgen::Profile::plain());
        let close = RMsg { tid: Hx(vec![4]), group: 0, abort: 0, body: RBody::Close { sig: None } };
        let close = MsgScn { body: Hx(smlgen::encode_body(&close, &mut rng, &smlgen::Profile::plain())), seal: Seal::Good };
        let mk = |b: Vec<u8>, post: Vec<ByteOp>, sub: &str, note: String| {
            Scenario::File(FileScn { prop: prop.into(), sub: sub.into(), msgs: vec![MsgScn { body: Hx(b), seal: Seal::Good }, close.clone()], post, extra_polls, notes: vec![format!("base:big-list({}{})", n, if wide { ",16-byte entries" } else { "" }), note] })
        };
        v.push(mk(body.clone(), vec![], "valid", "intact".into()));
        let total = body.len() + 4;
        for at in [65_535usize, 65_536, 65_537, total / 2, total - 1, total, total + 1] {
            v.push(mk(body.clone(), vec![ByteOp::Truncate { at }], "enum-truncate", format!("cut at {}", at)));
        }
        // the value list is the only list with n elements
        let sites = smlgen::walk_sites(&body);
        if let Some(site) = sites.iter().find(|s| s.ty == smlgen::TY_LIST && s.len == n) {
            for declared in [n + 1, n + 2, n + 9_363, 2 * n, 0xffff_fffe, 0xffff_ffff] {
                let mut b = body.clone();
                b.splice(site.off..site.off + site.tlf_size, smlgen::tlf(smlgen::TY_LIST, declared, 0));
                v.push(mk(b, vec![], "resealed", format!("msg0:declared-count(entries={},declared={})", n, declared)));
            }
            // ... and fewer than present
            let mut b = body.clone();
            b.splice(site.off..site.off + site.tlf_size, smlgen::tlf(smlgen::TY_LIST, n - 1, 0));
            v.push(mk(b, vec![], "resealed", format!("msg0:declared-count(entries={},declared={})", n, n - 1)));
        }
        v.push(mk(body.clone(), vec![ByteOp::Flip { at: total - 3, bit: 0 }], "enum-flip", "checksum bit".into()));
    }
    v
}

/// List responses in which one element is so long that it ends exactly 2^8 or 2^16 bytes behind an
/// earlier structural boundary of the same message (message start, value-list TLF, start of each
/// entry), while the list declares more entries than are present: a position kept in a narrower
/// integer wraps onto a boundary at which parsing can go on.  The long element is the value or the
/// signature of the last entry; the file ends right behind it or goes on with the (re-sealed) rest.
pub fn wrap_aligned_corpus(prop: &str, extra_polls: usize) -> Vec<Scenario> {
    use crate::smlref::{RBody, REntry, RMsg, RValue};
    let mut v = Vec::new();
    let mut rng = Rng::new(0xA116);
    let small = |i: usize| REntry {
        name: Hx(vec![1, 0, i as u8, 8, 0, 0xff][..(2 + 2 * (i % 3))].to_vec()),
        status: None,
        val_time: None,
        unit: if i % 2 == 1 { Some(30) } else { None },
        scaler: None,
        value: if i % 3 == 0 { RValue::U8(i as u8) } else { RValue::U32(0x0102_0304 + i as u32) },
        sig: None,
    };
    const K: usize = 3;
    // body with a long element of `l` bytes and a value list that declares `declared` entries
    let build = |rng: &mut Rng, l: usize, in_sig: bool, declared: usize| -> Option<(Vec<u8>, Vec<usize>, usize)> {
        let mut entries: Vec<REntry> = (0..K).map(small).collect();
        let long = Hx((0..l).map(|i| (i % 253) as u8).collect());
        let mut e = small(K);
        if in_sig {
            e.sig = Some(long);
        } else {
            e.value = RValue::Bytes(long);
        }
        entries.push(e);
        let m = RMsg {
            tid: Hx(vec![1, 2, 3]),
            group: 0,
            abort: 0,
            body: RBody::GetList { client_id: None, server_id: Hx(vec![9]), list_name: None, sensor_time: None, entries, sig: None, gateway_time: None },
        };
        let mut body = smlgen::encode_body(&m, rng, &smlgen::Profile::plain());
        let sites = smlgen::walk_sites(&body);
        let site = sites.iter().find(|s| s.ty == smlgen::TY_LIST && s.depth == 3 && s.len == K + 1)?.clone();
        body.splice(site.off..site.off + site.tlf_size, smlgen::tlf(smlgen::TY_LIST, declared, 0));
        let sites = smlgen::walk_sites(&body);
        let entry_sites: Vec<&smlgen::Site> = sites.iter().filter(|s| s.ty == smlgen::TY_LIST && s.depth == 4 && s.off > site.off).collect();
        if entry_sites.len() != K + 1 {
            return None;
        }
        let mut bounds = vec![0usize, site.off];
        bounds.extend(entry_sites.iter().map(|s| s.off));
        Some((body, bounds, entry_sites[K].end))
    };
    for in_sig in [false, true] {
        for declared in [K + 2, K + 4, 0x10_0000usize] {
            for w in [1usize << 8, 1 << 16] {
                for bi in 0..K + 3 {
                    // find the length for which the long entry ends at w + bounds[bi]
                    let mut l = w;
                    let mut found = None;
                    for _ in 0..6 {
                        let Some((body, bounds, end)) = build(&mut rng, l, in_sig, declared) else { break };
                        let want = w + bounds[bi];
                        if end == want {
                            found = Some((body, end));
                            break;
                        }
                        let nl = l as i64 + want as i64 - end as i64;
                        if nl < 0 {
                            break;
                        }
                        l = nl as usize;
                    }
                    let Some((body, end)) = found else { continue };
                    let note = format!("msg0:wrap-aligned(long-{}={},end=2^{}+boundary{},declared={})", if in_sig { "signature" } else { "value" }, l, w.trailing_zeros(), bi, declared);
                    // the file ends right behind the long entry
                    v.push(Scenario::File(FileScn { prop: prop.into(), sub: "wrap-aligned".into(), msgs: vec![MsgScn { body: Hx(body[..end].to_vec()), seal: Seal::None }], post: vec![], extra_polls, notes: vec![note.clone()] }));
                    // ... or goes on with the rest of the message, re-sealed
                    if bi % 2 == 0 {
                        v.push(Scenario::File(FileScn { prop: prop.into(), sub: "wrap-aligned".into(), msgs: vec![MsgScn { body: Hx(body), seal: Seal::Good }], post: vec![], extra_polls, notes: vec![note] }));
                    }
                }
            }
        }
    }
    v
}

pub fn enum_corpus(prop: &str, tier: Tier, extra_polls: usize) -> Vec<Scenario> {
    {
        let mut v = declared_count_corpus(prop, extra_polls);
        v.extend(wrap_aligned_corpus(prop, extra_polls));
        if !cfg!(debug_assertions) {
            // (the unoptimised build of the simulator spends most of a minute per megabyte)
            v.extend(big_message_corpus(prop, extra_polls));
        }
        for (bi, msgs) in base_set().into_iter().enumerate() {
            let base = FileScn { prop: prop.into(), sub: "valid".into(), msgs: msgs.clone(), post: vec![], extra_polls, notes: vec![format!("base:{}", bi)] };
            let total = base.bytes().len();
            v.push(Scenario::File(base.clone()));
            // every truncation
            for at in 0..total {
                let mut s = base.clone();
                s.sub = "enum-truncate".into();
                s.post = vec![ByteOp::Truncate { at }];
                v.push(Scenario::File(s));
            }
            // every single-bit flip, not re-sealed (quick: every 2nd bit position)
            let step = if tier == Tier::Quick { 3 } else { 1 };
            for at in 0..total {
                for bit in (0..8).step_by(step) {
                    let mut s = base.clone();
                    s.sub = "enum-flip".into();
                    s.post = vec![ByteOp::Flip { at, bit: ((bit + at) % 8) as u8 }];
                    v.push(Scenario::File(s));
                }
            }
            // every single-bit flip inside a body, re-sealed
            for (mi, m) in msgs.iter().enumerate() {
                for at in 0..m.body.len() {
                    for bit in (0..8).step_by(step) {
                        let mut s = base.clone();
                        s.sub = "resealed-enum-flip".into();
                        s.msgs[mi].body.0[at] ^= 1 << ((bit + at) % 8);
                        s.notes.push(format!("msg{}:bitflip(off={},bit={})", mi, at, (bit + at) % 8));
                        v.push(Scenario::File(s));
                    }
                }
            }
        }
        v
    }
}
