//! C09 — the two parsers agree; streaming event protocol.

use super::c04::file_exec;
use super::*;
use crate::core::{Outcome, Prop, Stats, Tier, Violation};
use crate::hexbytes::hex;
use crate::rng::Rng;
use crate::scn::Scenario;
use crate::smlgen::{self, Emphasis};

pub struct C09Prop;
pub static C09: C09Prop = C09Prop;

impl Prop for C09Prop {
    fn id(&self) -> &'static str {
        "C09"
    }
    fn runs(&self, tier: Tier) -> u64 {
        match tier {
            Tier::Quick => 200_000,
            Tier::Thorough => 20_000_000,
        }
    }
    fn rule(&self) -> &'static str {
        "every payload the Byzantine meter produces (valid files from the abstract model / real transmissions; structural mutations re-sealed with a valid CRC incl. list-count inflation; seal faults; un-resealed byte faults) goes to complete::parse and to streaming::Parser; results and error variants must agree and the recorded event history must follow Start(n) Entry^n End. Non-trivial = at least one fault applied; distinct = scenario fingerprint"
    }
    fn assumptions(&self) -> Vec<&'static str> {
        vec![
            "metamorphic (both parsers are real code): a defect common to both is invisible here, C04 carries the independent oracle",
            "error kinds are compared by ParseError variant (plus the inner TlfParseError); the type_name string inside TlfMismatch is explicitly unstable and ignored",
            "a panic on one side only is a disagreement; the same panic on both sides is left to C06",
        ]
    }
    fn required_probes(&self, _tier: Tier) -> Vec<&'static str> {
        vec!["probe.agree.ok", "probe.agree.err", "probe.list-messages-checked", "probe.error-inside-list"]
    }

    fn directed(&self, tier: Tier) -> Vec<Scenario> {
        super::c04::enum_corpus("C09", tier, 1)
    }

    fn gen(&self, rng: &mut Rng, tier: Tier) -> Scenario {
        let em = match rng.below(3) {
            0 => Emphasis::inflation(),
            1 => Emphasis::mid_message(),
            _ => Emphasis::balanced(),
        };
        Scenario::File(smlgen::gen_file_scn(rng, tier, "C09", &em))
    }

    fn exec(&self, scn: &Scenario, st: &mut Stats) -> Outcome {
        file_exec(scn, st, &|r, x, f, st| {
            let show = |x: &[u8]| if x.len() <= 96 { hex(x) } else { format!("{}..({} bytes)", hex(&x[..96]), x.len()) };
            let ctx = format!("[{}] input {}", f.notes.join(", "), show(x));
            // protocol over the recorded event history (whatever the outcome)
            if let Some(pe) = &r.reassembled.protocol_error {
                return Some(Violation::oracle("C09.event-protocol", format!("{}; {}", pe, ctx)));
            }
            if r.stream_panic.is_none() && r.stream_err.is_none() && !r.budget_exhausted && r.reassembled.open_list {
                return Some(Violation::oracle(
                    "C09.event-protocol",
                    format!("the streaming parser ended without an error while a list response was still open (no GetListResponseEnd); {}", ctx),
                ));
            }
            if r.events.iter().any(|e| matches!(e, crate::smlref::REv::Start(_, Some(_)))) {
                st.bump("probe", "list-messages-checked");
            }
            if r.stream_err.is_some() && r.reassembled.open_list {
                st.bump("probe", "error-inside-list");
            }
            match (&r.complete, &r.stream_panic) {
                (Err(a), Some(b)) => {
                    if a.clause != b.clause {
                        return Some(Violation::oracle("C09.different-crash", format!("complete: {} streaming: {}; {}", a.clause, b.clause, ctx)));
                    }
                    return None;
                }
                (Err(a), None) => {
                    return Some(Violation::oracle("C09.one-sided-crash", format!("complete::parse panicked ({}: {}) but the streaming parser did not; {}", a.clause, a.detail, ctx)));
                }
                (Ok(_), Some(b)) => {
                    return Some(Violation::oracle("C09.one-sided-crash", format!("the streaming parser panicked ({}: {}) but complete::parse did not; {}", b.clause, b.detail, ctx)));
                }
                (Ok(c), None) => {
                    if r.budget_exhausted {
                        return Some(Violation::oracle("C09.streaming-does-not-end", format!("more than |x|+1 items; {}", ctx)));
                    }
                    match (c, &r.stream_err) {
                        (Ok(file), None) => {
                            st.bump("probe", "agree.ok");
                            if *file != r.reassembled.file {
                                return Some(Violation::oracle(
                                    "C09.different-content",
                                    format!("both parsers accept, but the reassembled events differ from the file of complete::parse; {}", ctx),
                                ));
                            }
                        }
                        (Err(e), Some(s)) => {
                            st.bump("probe", "agree.err");
                            if e.variant != s.variant {
                                return Some(Violation::oracle(
                                    "C09.different-error-kind",
                                    format!("complete::parse: {} streaming: {}; {}", e.info, s.info, ctx),
                                ));
                            }
                        }
                        (Ok(_), Some(s)) => {
                            return Some(Violation::oracle("C09.only-streaming-errs", format!("complete::parse accepts, streaming reports {}; {}", s.info, ctx)));
                        }
                        (Err(e), None) => {
                            return Some(Violation::oracle("C09.only-complete-errs", format!("complete::parse reports {}, streaming ends without error after {} events; {}", e.info, r.events.len(), ctx)));
                        }
                    }
                }
            }
            None
        })
    }
}
