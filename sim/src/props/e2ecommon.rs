//! E2E engine: expected histories are built as a queue of abstract events and
//! mapped onto the calls the application actually made.

use crate::fe::{Call, CallKind, Target};
use crate::obs::{DErr, IoKind, Item, Obs, PErr};
use crate::smlref::{conv_file, ref_read};
use sml_rs::parser::complete;
use sml_rs::parser::streaming::Parser;

#[derive(Clone, Debug, PartialEq, Eq)]
pub enum Ev {
    /// a payload was decoded
    Payload(Vec<u8>),
    /// a decode error
    Dec(DErr),
    /// would-block surfacing
    Wb,
    /// source error other than EOF / would-block, with the discard count
    IoOther(String, usize),
    /// end of input (transient or final) with the discard count
    Eof(usize),
}

/// how the payload is turned into the item of a call, by hand composition with the real parsers
pub fn hand_payload(p: &[u8], c: Call) -> Item {
    match c.target {
        Target::Bytes => Item::Msg(p.to_vec()),
        Target::File => match complete::parse(p) {
            Ok(f) => Item::File(conv_file(&f)),
            Err(e) => Item::Parse(PErr::from(&e)),
        },
        Target::Parser => crate::fe::drain_parser(Parser::new(p), c.max_events, 1 << 20),
    }
}

/// ... and by the independent reference reader (None if the payload is not a valid file,
/// or the call abandons its parser: then nothing independent can be said)
pub fn ref_payload(p: &[u8], c: Call) -> Option<Item> {
    match c.target {
        Target::Bytes => Some(Item::Msg(p.to_vec())),
        Target::File => ref_read(p).ok().map(Item::File),
        Target::Parser => {
            if c.max_events.is_some() {
                None
            } else {
                ref_read(p).ok().map(|t| Item::Events(t, None, true))
            }
        }
    }
}

pub fn represent(ev: &Ev, c: Call, independent: bool) -> Option<Item> {
    let nb = matches!(c.kind, CallKind::ReadNb | CallKind::NextNb);
    let nexty = matches!(c.kind, CallKind::Next | CallKind::NextNb);
    Some(match ev {
        Ev::Payload(p) => {
            if independent {
                return ref_payload(p, c);
            } else {
                hand_payload(p, c)
            }
        }
        Ev::Dec(d) => Item::Dec(d.clone()),
        Ev::Wb => {
            if nb {
                Item::NbWouldBlock
            } else {
                Item::Io(IoKind::WouldBlock, 0)
            }
        }
        Ev::IoOther(k, n) => Item::Io(IoKind::Other(k.clone()), *n),
        Ev::Eof(n) => {
            if *n == 0 && nexty {
                Item::End
            } else {
                Item::Io(IoKind::Eof, *n)
            }
        }
    })
}

/// Compare the observed items with the expected event queue mapped through the calls made.
/// `tail` is the event repeated forever once the queue is empty (sticky end of input).
/// Returns Err(description) at the first difference.  `skipped` counts calls for which the
/// independent oracle has nothing to say (abandoned parsers).
pub fn compare(obs: &[Obs], made: &[Call], queue: &[Ev], tail: &Ev, independent: bool, skipped: &mut usize) -> Result<(), String> {
    let mut qi = 0;
    for (k, (o, c)) in obs.iter().zip(made.iter()).enumerate() {
        let ev = if qi < queue.len() { &queue[qi] } else { tail };
        qi += 1;
        match represent(ev, *c, independent) {
            None => {
                *skipped += 1;
                // still: the call must have produced a payload-type item, not an error
                if !matches!(o.item, Item::Events(..) | Item::File(_) | Item::Parse(_)) {
                    return Err(format!("call {} ({:?} {:?}): expected a parsed item for event {:?}, got {}", k, c.kind, c.target, short_ev(ev), o.item.short()));
                }
            }
            Some(exp) => {
                if exp != o.item {
                    return Err(format!(
                        "call {} ({:?} {:?}{}): expected {} (event {}), got {}",
                        k,
                        c.kind,
                        c.target,
                        if c.max_events.is_some() { " abandoning" } else { "" },
                        exp.short(),
                        short_ev(ev),
                        o.item.short()
                    ));
                }
            }
        }
    }
    if qi < queue.len() {
        return Err(format!(
            "the application stopped after {} calls but {} expected event(s) were never reported, first: {}",
            obs.len(),
            queue.len() - qi,
            short_ev(&queue[qi])
        ));
    }
    Ok(())
}

pub fn short_ev(e: &Ev) -> String {
    match e {
        Ev::Payload(p) => format!("Payload({}B)", p.len()),
        other => format!("{:?}", other),
    }
}

/// events of the hand composition: a push decoder (same buffer kind) driven byte by byte over `s`
pub fn hand_decode_events(buf: crate::fe::BufKind, s: &[u8]) -> (Vec<(usize, Ev)>, usize) {
    let k = if buf == crate::fe::BufKind::Default { crate::fe::BufKind::Arr(8192) } else { buf };
    let obs = crate::fe::drive_push_kind(k, s, &[], 0, true);
    let mut evs = Vec::new();
    let mut leftover = 0;
    for o in obs {
        match o.item {
            Item::Msg(m) => evs.push((o.pos, Ev::Payload(m))),
            Item::Dec(d) => evs.push((o.pos, Ev::Dec(d))),
            Item::Fin(DErr::Discarded(n)) => leftover = n,
            _ => {}
        }
    }
    (evs, leftover)
}
