//! C07 — encoder conformance, agreement, capacity and termination.

use super::*;
use crate::core::{Outcome, Prop, Stats, Tier, Violation};
use crate::fe::{BufKind, Fe, LADDER};
use crate::gen;
use crate::hexbytes::{hex, Hx};
use crate::rng::Rng;
use crate::scn::{Enc, LinkScn, Scenario, Seg};

pub struct C07Prop;
pub static C07: C07Prop = C07Prop;

struct NonFused<'a> {
    p: &'a [u8],
    i: usize,
}
impl<'a> Iterator for NonFused<'a> {
    type Item = u8;
    fn next(&mut self) -> Option<u8> {
        let i = self.i;
        self.i += 1;
        if i < self.p.len() {
            Some(self.p[i])
        } else if i == self.p.len() {
            None
        } else {
            Some(0x99)
        }
    }
}

fn first_diff(a: &[u8], b: &[u8]) -> String {
    let k = a.iter().zip(b.iter()).position(|(x, y)| x != y).unwrap_or(a.len().min(b.len()));
    let lo = k.saturating_sub(8);
    format!(
        "lengths {} vs {}, first difference at {}: ..{} vs ..{}",
        a.len(),
        b.len(),
        k,
        hex(&a[lo.min(a.len())..(k + 8).min(a.len())]),
        hex(&b[lo.min(b.len())..(k + 8).min(b.len())])
    )
}

fn scn_for(p: Vec<u8>, buf: BufKind, sub: &str) -> LinkScn {
    let mut l = LinkScn::new("C07", sub, Fe::Push, buf);
    l.segs.push(Seg::Frame {
        payload: Hx(p),
        enc: Enc::Buf,
        faults: vec![],
    });
    l.extra_polls = 64;
    l
}

fn with_polls(mut l: LinkScn, rng: &mut Rng) -> LinkScn {
    l.extra_polls = *rng.pick(&[64usize, 64, 64, 300, 300, 70_000]);
    l
}

impl Prop for C07Prop {
    fn id(&self) -> &'static str {
        "C07"
    }
    fn runs(&self, tier: Tier) -> u64 {
        match tier {
            Tier::Quick => 200_000,
            Tier::Thorough => 20_000_000,
        }
    }
    fn rule(&self) -> &'static str {
        "one payload per run (token grammar, 1b runs of every length and offset, lengths incl. 252..260, 1020..1028, >= 65536 rarely) through encode::<Vec>, encode_streaming (fused and non-fused inner iterator, polled 64 more times) and encode::<ArrayBuf<N>> with N chosen on the ladder around the frame length (one short, exact fit, one spare) or Vec with the n-th allocation failing. Non-trivial = payload contains an escape, needs padding, is >= 256 bytes, or a capacity / allocation fault was in play; distinct = scenario fingerprint"
    }
    fn assumptions(&self) -> Vec<&'static str> {
        vec!["the wire format is the harness's reading of the specification text in the property (refenc), with its own bitwise CRC-16/X.25"]
    }
    fn required_probes(&self, _tier: Tier) -> Vec<&'static str> {
        vec!["probe.exact-fit", "probe.one-short", "probe.alloc-failure-fired", "probe.escape", "probe.payload>=256"]
    }

    fn directed(&self, _tier: Tier) -> Vec<Scenario> {
        let mut v = Vec::new();
        // 1b runs of every length 0..=13 at every offset mod 4, with and without tail
        for run in 0..=13usize {
            for off in 0..4usize {
                for tail in 0..3usize {
                    let mut p = vec![0x21u8; off];
                    p.extend(std::iter::repeat(0x1b).take(run));
                    p.extend(std::iter::repeat(0x22).take(tail));
                    let flen = refenc(&p).len();
                    for n in [flen.saturating_sub(1), flen, flen + 1] {
                        if LADDER.contains(&n) {
                            v.push(Scenario::Link(scn_for(p.clone(), BufKind::Arr(n), "directed-1b-runs")));
                        }
                    }
                    v.push(Scenario::Link(scn_for(p, BufKind::Vec, "directed-1b-runs")));
                }
            }
        }
        let maxlen = if _tier == Tier::Thorough { 7 } else { 5 };
        for (i, p) in gen::all_strings(&[0x00, 0x1b, 0x01, 0x1a, 0x55], maxlen).into_iter().enumerate() {
            let flen = refenc(&p).len();
            let buf = match i % 3 {
                0 => BufKind::Vec,
                1 => BufKind::Arr(flen),
                _ => BufKind::Arr(flen - 1),
            };
            let buf = match buf {
                BufKind::Arr(n) if !LADDER.contains(&n) => BufKind::Vec,
                b => b,
            };
            v.push(Scenario::Link(scn_for(p, buf, "directed-small-scope")));
        }
        // frames whose checksum is all zeros / all ones / looks like escape, end or start bytes
        for p in gen::special_crc_payloads() {
            v.push(Scenario::Link(scn_for(p.clone(), BufKind::Vec, "directed-special-crc")));
        }
        for n in (252..=260).chain(1020..=1028) {
            for fill in [0x55u8, 0x1b, 0x00] {
                v.push(Scenario::Link(scn_for(vec![fill; n], BufKind::Vec, "directed-len")));
            }
        }
        v
    }

    fn gen(&self, rng: &mut Rng, tier: Tier) -> Scenario {
        // capacity-driven: pick N on the ladder, then a payload whose frame length lands on N-1..N+1
        let mode = rng.below(10);
        if rng.chance(1, 150) {
            // capacities beyond 2^16: the fill level of a fixed buffer must not be a 16-bit quantity
            let plen = *rng.pick(&[65_510usize, 65_519, 65_520, 65_521, 65_530, 69_980, 69_984, 69_985]);
            let p = vec![*rng.pick(&[0x00u8, 0x37, 0x1b]); plen];
            return Scenario::Link(scn_for(p, BufKind::Arr(70_000), "capacity-64k"));
        }
        if mode < 5 {
            let n = *rng.pick(&LADDER[16..LADDER.len() - 2]);
            let base = 4 * (n / 4);
            let target = match rng.below(3) {
                0 => base.saturating_sub(4),
                1 => base,
                _ => base + 4,
            }
            .max(16);
            // payload length so that (without escapes) the frame has `target` bytes
            let body = target - 16;
            let plen = body.saturating_sub(rng.below(4).min(body));
            let mut p = gen::gen_payload_len(rng, plen);
            if rng.chance(2, 3) {
                // avoid escapes so that the frame length is exactly the target
                let mut run = 0;
                for b in p.iter_mut() {
                    if *b == 0x1b {
                        run += 1;
                        if run == 4 {
                            *b = 0x2a;
                            run = 0;
                        }
                    } else {
                        run = 0;
                    }
                }
            }
            return Scenario::Link(with_polls(scn_for(p, BufKind::Arr(n), "capacity"), rng));
        }
        let max = if rng.chance(1, 60) { 70_000 } else { 3000 };
        let mut p = gen::gen_payload(rng, tier, max);
        if max == 70_000 {
            let n = *rng.pick(&[65_535usize, 65_536, 65_537, 66_000]);
            p = gen::gen_payload_len(rng, n);
        }
        let mut l = with_polls(scn_for(p, BufKind::Vec, "vec"), rng);
        if mode < 8 {
            l.alloc_fail = rng.range(1, 14) as u64;
            l.sub = "alloc-failure".into();
        }
        Scenario::Link(l)
    }

    fn exec(&self, scn: &Scenario, st: &mut Stats) -> Outcome {
        let l = link(scn);
        let p = match l.segs.first() {
            Some(Seg::Frame { payload, .. }) => &payload.0,
            _ => return Outcome::default(),
        };
        let want = refenc(p);
        let mut obs: Vec<Obs> = Vec::new();
        let mut violation: Option<Violation> = None;
        let mut fail = |clause: &str, d: String, violation: &mut Option<Violation>| {
            if violation.is_none() {
                *violation = Some(Violation::oracle(clause, d));
            }
        };

        // 1. growable buffer (fault free)
        // the payload is handed over as a slice (items `&u8`, exact hint), as a filter over a
        // longer source (items `u8`, loose upper bound) or by value with a lower bound only
        let enc1 = match p.len() % 3 {
            0 => sml_rs::transport::encode::<Vec<u8>>(p),
            1 => sml_rs::transport::encode::<Vec<u8>>((0..p.len() + 5).filter_map(|i| p.get(i).copied())),
            _ => sml_rs::transport::encode::<Vec<u8>>(p.iter().copied().chain(core::iter::empty()).skip_while(|_| false)),
        };
        match enc1 {
            Ok(f) => {
                if f != want {
                    fail("C07.buffer-encoder-format", format!("encode::<Vec>: {}", first_diff(&f, &want)), &mut violation);
                }
                obs.push(Obs { pos: 0, item: Item::Msg(f) });
            }
            Err(_) => fail("C07.buffer-encoder-oom-without-fault", "encode::<Vec> returned OutOfMemory without any injected failure".into(), &mut violation),
        }

        // 2. iterator encoder over three kinds of sources - exact size hint (slice), no hint (and not
        //    fused), loose upper bound (filter over a longer source) - then polled past the end
        for source in 0..3 {
            let nonfused = source == 1;
            let mut out = Vec::with_capacity(want.len() + 8);
            let mut after_end_some = 0usize;
            let mut ended = false;
            let mut polls_after = 0usize;
            let cap = want.len() + 16 + l.extra_polls + p.len();
            let mut run = |e: &mut dyn Iterator<Item = u8>| {
                for _ in 0..cap {
                    match e.next() {
                        Some(b) => {
                            if ended {
                                after_end_some += 1;
                            } else {
                                out.push(b);
                            }
                        }
                        None => {
                            if ended {
                                polls_after += 1;
                                if polls_after >= l.extra_polls {
                                    break;
                                }
                            }
                            ended = true;
                        }
                    }
                }
            };
            if source == 2 {
                // p interleaved with marker positions that the filter removes again: the inner
                // iterator's upper bound exceeds what it yields by `junk` (not a multiple of four)
                let junk = 1 + (p.len() + l.extra_polls) % 7;
                let total = p.len() + junk;
                let mut e = sml_rs::transport::encode_streaming((0..total).filter_map(|i| p.get(i).copied()));
                run(&mut e);
            } else if nonfused {
                let mut e = sml_rs::transport::encode_streaming(NonFused { p, i: 0 });
                run(&mut e);
            } else {
                let mut e = sml_rs::transport::encode_streaming(p.iter());
                run(&mut e);
            }
            if out != want {
                fail(
                    "C07.iterator-encoder-format",
                    format!("encode_streaming ({}): {}", ["slice source", "non-fused source without size hint", "filtered source with a loose upper size hint"][source], first_diff(&out, &want)),
                    &mut violation,
                );
            }
            if !ended {
                fail("C07.iterator-encoder-no-end", format!("encode_streaming produced more than {} bytes without ending", cap), &mut violation);
            }
            if after_end_some > 0 {
                fail(
                    "C07.iterator-encoder-restarts",
                    format!("encode_streaming ({} inner iterator) yielded {} more bytes after it had returned None", if nonfused { "non-fused" } else { "fused" }, after_end_some),
                    &mut violation,
                );
            }
            obs.push(Obs { pos: out.len(), item: Item::Reset(after_end_some) });
        }

        // 3. the configured buffer: fixed capacity or Vec with allocation failure
        match l.buf {
            BufKind::Arr(n) => {
                let r: Result<Vec<u8>, ()> = if p.len() % 2 == 0 {
                    crate::with_cap!(n, B => sml_rs::transport::encode::<B>(p).map(|b| b.to_vec()).map_err(|_| ()))
                } else {
                    crate::with_cap!(n, B => sml_rs::transport::encode::<B>((0..p.len() + 9).filter_map(|i| p.get(i).copied())).map(|b| b.to_vec()).map_err(|_| ()))
                };
                let fits = want.len() <= n;
                if want.len() == n {
                    st.bump("probe", "exact-fit");
                }
                if want.len() == n + 1 || (want.len() > n && want.len() <= n + 4) {
                    st.bump("probe", "one-short");
                }
                match (&r, fits) {
                    (Ok(f), true) => {
                        if *f != want {
                            fail("C07.buffer-encoder-format", format!("encode::<ArrayBuf<{}>>: {}", n, first_diff(f, &want)), &mut violation);
                        }
                    }
                    (Err(()), false) => {}
                    (Ok(f), false) => fail(
                        "C07.capacity",
                        format!("encode::<ArrayBuf<{}>> returned Ok({} bytes) although the frame has {} bytes", n, f.len(), want.len()),
                        &mut violation,
                    ),
                    (Err(()), true) => fail(
                        "C07.capacity",
                        format!("encode::<ArrayBuf<{}>> returned OutOfMemory although the frame has only {} bytes", n, want.len()),
                        &mut violation,
                    ),
                }
                obs.push(Obs {
                    pos: n,
                    item: match r {
                        Ok(f) => Item::Msg(f),
                        Err(()) => Item::Dec(DErr::Oom),
                    },
                });
            }
            BufKind::Vec if l.alloc_fail > 0 => {
                let a = crate::alloc::arm(l.alloc_fail);
                let r = a.call(|| sml_rs::transport::encode::<Vec<u8>>(p));
                let fired = a.stats().failed > 0;
                drop(a);
                if fired {
                    st.bump("probe", "alloc-failure-fired");
                }
                match (&r, fired) {
                    (Err(_), true) => {}
                    (Ok(f), false) => {
                        if *f != want {
                            fail("C07.buffer-encoder-format", format!("encode::<Vec> (armed, not fired): {}", first_diff(f, &want)), &mut violation);
                        }
                    }
                    // an implementation may recover from a failed reservation (e.g. retry with a smaller
                    // one); then the frame must still be the right one
                    (Ok(f), true) => {
                        if *f != want {
                            fail("C07.buffer-encoder-format", format!("encode::<Vec> (after a failed allocation): {}", first_diff(f, &want)), &mut violation);
                        }
                    }
                    (Err(_), false) => fail("C07.buffer-encoder-oom-without-fault", "encode::<Vec> returned OutOfMemory although no allocation failed".into(), &mut violation),
                }
                obs.push(Obs {
                    pos: 0,
                    item: if r.is_ok() { Item::FinNone } else { Item::Dec(DErr::Oom) },
                });
            }
            _ => {}
        }
        let has_esc = want.len() > p.len() + 16 + 3;
        if has_esc {
            st.bump("probe", "escape");
        }
        if p.len() >= 256 {
            st.bump("probe", "payload>=256");
        }
        if p.len() >= 65_536 {
            st.bump("probe", "payload>=65536");
        }
        let nontrivial = has_esc || (want.len() != p.len() + 16) || p.len() >= 256 || l.alloc_fail > 0 || matches!(l.buf, BufKind::Arr(_));
        finish(st, &obs, violation, nontrivial, (want.len() * 3) as u64)
    }
}
