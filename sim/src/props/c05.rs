//! C05 — transport totality over inputs and call histories.

use super::*;
use crate::with_buf;
use crate::core::{Outcome, Prop, Stats, Tier, Violation};
use crate::fe::{self, AppPlan, BufKind, Call, CallKind, Fe, PushOp, SrcFault, SrcState, Target, LADDER};
use crate::gen::{self, StreamMix};
use crate::hexbytes::Hx;
use crate::rng::Rng;
use crate::scn::{build_stream, Enc, LinkScn, Scenario, Seg};

pub struct C05Prop;
pub static C05: C05Prop = C05Prop;

fn long_len(rng: &mut Rng, tier: Tier) -> usize {
    let v: &[usize] = match tier {
        Tier::Quick => &[255, 256, 257, 65_534, 65_535, 65_536, 65_537, 70_000],
        Tier::Thorough => &[255, 256, 257, 65_534, 65_535, 65_536, 65_537, 131_075, 200_000, 300_000],
    };
    *rng.pick(v)
}

fn long_seg(rng: &mut Rng, tier: Tier) -> Seg {
    let n = long_len(rng, tier);
    match rng.below(5) {
        0 => Seg::Raw(Hx(vec![0u8; n])),
        1 => Seg::Raw(Hx(vec![0x1bu8; n])),
        2 => Seg::Raw(Hx(rng.bytes(n))),
        3 => {
            // long noise without a start sequence
            let mut g = rng.bytes(n);
            for b in g.iter_mut() {
                if *b == 0x01 {
                    *b = 0x02;
                }
            }
            Seg::Noise(Hx(g))
        }
        _ => {
            let fill = *rng.pick(&[0x00u8, 0x1b, 0x55]);
            Seg::Frame {
                payload: Hx(vec![fill; n]),
                enc: gen::gen_enc(rng),
                faults: vec![],
            }
        }
    }
}

fn small_buf(rng: &mut Rng) -> BufKind {
    match rng.below(4) {
        0 => BufKind::Arr(*rng.pick(&[0usize, 1, 2, 3, 4])),
        1 => BufKind::Arr(*rng.pick(&LADDER[..41])),
        2 => BufKind::Vec,
        _ => BufKind::Arr(*rng.pick(&[64usize, 256, 1024, 8192])),
    }
}

fn probe_len(buf: BufKind) -> u8 {
    match buf {
        BufKind::Arr(n) => n.min(5) as u8,
        _ => 5,
    }
}

impl Prop for C05Prop {
    fn id(&self) -> &'static str {
        "C05"
    }
    fn runs(&self, tier: Tier) -> u64 {
        match tier {
            Tier::Quick => 200_000,
            Tier::Thorough => 15_000_000,
        }
    }
    fn unoptimised_share(&self, tier: Tier) -> f64 {
        match tier {
            Tier::Quick => 0.1,
            Tier::Thorough => 0.03,
        }
    }
    fn rule(&self) -> &'static str {
        "sub-configurations: push-history (arbitrary stream x finalize/reset/probe at random positions x buffers {0..4, ladder, Vec with allocation failure}), long (noise runs and payloads of 255..257, 65534..65537, 70000, thorough: 2^17+3..300000 through push decoder and readers), batch (decode / decode_streaming polled up to 64 times past the end), reader (4 sources x source faults x read/next/read_nb/next_nb polled past end; probe frame after an injected error must be the last payload delivered), encoders (iterator encoder polled 64 times past the end, buffer encoder into ArrayBuf<N> around the frame length and into Vec with allocation failure). Oracle: no panic (overflow checks on) / abort / hang, every usability probe delivers. The directed corpus and a share of the seeded runs are repeated in the unoptimised build of the simulator (no tail calls, debug assertions) on a 48 MiB stack. Non-trivial = the run contained at least one fault, API call, capacity overflow or long segment; distinct = scenario fingerprint"
    }
    fn assumptions(&self) -> Vec<&'static str> {
        vec![
            "harness built with overflow-checks=on: a wrapping internal counter is a panic, hence a violation",
            "allocation failure is injected only into calls that allocate through try_reserve (Vec<u8> as Buffer); infallible allocations abort by language design",
            "the probe is preceded by finalize(), which the API documents as a reset",
        ]
    }
    fn required_probes(&self, _tier: Tier) -> Vec<&'static str> {
        vec![
            "probe.long.noise>=65536",
            "probe.long.payload>=65536",
            "probe.probe-ok",
            "probe.oom-seen",
            "probe.alloc-failure-fired",
            "probe.reader-probe-ok",
        ]
    }

    fn directed(&self, _tier: Tier) -> Vec<Scenario> {
        // noise runs around the 8/16-bit limits through every front-end with positions
        let mut v = Vec::new();
        for n in [254usize, 255, 256, 257, 65_534, 65_535, 65_536, 65_537] {
            for fill in [0x00u8, 0x1b, 0x42] {
                for fe in [Fe::Push, Fe::Streaming, Fe::RdIter, Fe::RdIo, Fe::Decode, Fe::RdSlice] {
                    let mut l = LinkScn::new("C05", "long", fe, if fe == Fe::Decode { BufKind::Vec } else { BufKind::Arr(16) });
                    l.segs.push(Seg::Noise(Hx(vec![fill; n])));
                    l.segs.push(Seg::Frame {
                        payload: Hx(vec![1, 2, 3]),
                        enc: Enc::Buf,
                        faults: vec![],
                    });
                    if fe == Fe::Push {
                        l.ops.push((n + 28, PushOp::Probe(3)));
                    }
                    v.push(Scenario::Link(l));
                }
            }
        }
        v
    }

    fn gen(&self, rng: &mut Rng, tier: Tier) -> Scenario {
        let sub = ["push-history", "push-history", "long", "batch", "reader", "reader", "encoders"][rng.below(7)];
        let long_rare = rng.chance(1, 12);
        match sub {
            "push-history" => {
                let buf = small_buf(rng);
                let mut l = LinkScn::new("C05", sub, Fe::Push, buf);
                let mix = StreamMix::draw(rng, 300);
                l.segs = gen::gen_segs(rng, tier, &mix);
                let len = build_stream(&l.segs).stream.len();
                let nops = rng.below(5);
                let marks = gen::marks_of(&l.segs);
                l.ops = gen::gen_push_ops_biased(rng, len, nops, &marks);
                let np = rng.range(1, 3);
                for _ in 0..np {
                    let at = if rng.chance(1, 2) { len } else { rng.below(len + 1) };
                    l.ops.push((at, PushOp::Probe(probe_len(buf))));
                }
                l.ops.sort_by_key(|(p, _)| *p);
                if buf == BufKind::Vec && rng.chance(2, 3) {
                    l.alloc_fail = rng.range(1, 12) as u64;
                }
                Scenario::Link(l)
            }
            "long" => {
                let fe = *rng.pick(&[Fe::Push, Fe::Push, Fe::Streaming, Fe::RdIter, Fe::RdIo, Fe::RdEh, Fe::Decode, Fe::RdSlice]);
                let buf = if fe == Fe::Decode {
                    BufKind::Vec
                } else if rng.chance(1, 2) {
                    BufKind::Vec
                } else {
                    BufKind::Arr(*rng.pick(&[0usize, 4, 256, 8192, 70_000, 300_000]))
                };
                let mut l = LinkScn::new("C05", sub, fe, buf);
                if long_rare || tier == Tier::Thorough || rng.chance(1, 3) {
                    l.segs.push(long_seg(rng, tier));
                } else {
                    l.segs.push(Seg::Raw(Hx(vec![*rng.pick(&[0u8, 0x1b, 0x33]); rng.range(250, 260)])));
                }
                l.segs.push(Seg::Frame {
                    payload: Hx(gen::gen_payload_upto(rng, 8)),
                    enc: Enc::Ref,
                    faults: vec![],
                });
                if fe == Fe::Push {
                    let len = build_stream(&l.segs).stream.len();
                    l.ops = { let k = rng.below(3); gen::gen_push_ops(rng, len, k) };
                    l.ops.push((len, PushOp::Probe(probe_len(buf))));
                }
                l.extra_polls = rng.below(4);
                Scenario::Link(l)
            }
            "batch" => {
                let fe = *rng.pick(&[Fe::Decode, Fe::Streaming]);
                let buf = if fe == Fe::Decode { BufKind::Vec } else { small_buf(rng) };
                let mut l = LinkScn::new("C05", sub, fe, buf);
                let mix = StreamMix::draw(rng, 300);
                l.segs = gen::gen_segs(rng, tier, &mix);
                l.extra_polls = *rng.pick(&[0usize, 1, 2, 64, 300, 70_000]);
                Scenario::Link(l)
            }
            "reader" => {
                let fe = *rng.pick(&[Fe::RdSlice, Fe::RdIter, Fe::RdIo, Fe::RdIo, Fe::RdEh]);
                let buf = match rng.below(4) {
                    0 => BufKind::Default,
                    1 => BufKind::Vec,
                    _ => small_buf(rng),
                };
                let mut l = LinkScn::new("C05", sub, fe, buf);
                let mix = StreamMix::draw(rng, 300);
                l.segs = gen::gen_segs(rng, tier, &mix);
                let len = build_stream(&l.segs).stream.len();
                if matches!(fe, Fe::RdIo | Fe::RdEh) {
                    let kinds: &[SrcFault] = if fe == Fe::RdIo {
                        &[SrcFault::WouldBlock, SrcFault::Interrupted, SrcFault::Other(0), SrcFault::Eof(0)]
                    } else {
                        &[SrcFault::WouldBlock, SrcFault::Other(0)]
                    };
                    l.src = gen::gen_src_faults_upto(rng, len, 5, kinds);
                    // probe frame after an injected error
                    l.src.push((len, SrcFault::Other(rng.below(6) as u8)));
                    l.segs.push(Seg::Frame {
                        payload: Hx(vec![0xa5; probe_len(buf) as usize]),
                        enc: Enc::Ref,
                        faults: vec![],
                    });
                    l.knobs.insert("reader_probe".into(), 1);
                }
                let kind = *rng.pick(&[CallKind::Read, CallKind::Next, CallKind::ReadNb, CallKind::NextNb]);
                let n = rng.range(1, 3);
                l.calls = (0..n)
                    .map(|_| Call {
                        kind: if rng.chance(1, 4) { *rng.pick(&[CallKind::Read, CallKind::Next, CallKind::ReadNb, CallKind::NextNb]) } else { kind },
                        target: *rng.pick(&[Target::Bytes, Target::Bytes, Target::File, Target::Parser]),
                        max_events: if rng.chance(1, 4) { Some(rng.below(4) as u16) } else { None },
                    })
                    .collect();
                l.extra_polls = *rng.pick(&[0usize, 1, 3, 64, 300]);
                if buf == BufKind::Vec && rng.chance(1, 3) {
                    l.alloc_fail = rng.range(1, 8) as u64;
                }
                Scenario::Link(l)
            }
            _ => {
                // encoders
                let p = if long_rare {
                    let n = long_len(rng, tier);
                    vec![*rng.pick(&[0u8, 0x1b, 0x77]); n]
                } else {
                    gen::gen_payload(rng, tier, 2000)
                };
                let flen = refenc(&p).len();
                let cands: Vec<usize> = LADDER
                    .iter()
                    .copied()
                    .filter(|c| *c + 8 >= flen.saturating_sub(8) && *c <= flen + 64)
                    .collect();
                let buf = if cands.is_empty() || rng.chance(1, 3) {
                    if rng.chance(1, 2) {
                        BufKind::Vec
                    } else {
                        BufKind::Arr(*rng.pick(LADDER))
                    }
                } else {
                    BufKind::Arr(*rng.pick(&cands))
                };
                let mut l = LinkScn::new("C05", "encoders", Fe::Push, buf);
                l.segs.push(Seg::Frame {
                    payload: Hx(p),
                    enc: Enc::Buf,
                    faults: vec![],
                });
                if buf == BufKind::Vec && rng.chance(2, 3) {
                    l.alloc_fail = rng.range(1, 10) as u64;
                }
                l.extra_polls = *rng.pick(&[64usize, 64, 64, 300, 300, 70_000]);
                Scenario::Link(l)
            }
        }
    }

    fn exec(&self, scn: &Scenario, st: &mut Stats) -> Outcome {
        let l = link(scn);
        st.add_dyn(format!("cfg.sub.{}", l.sub), 1);
        if l.sub == "encoders" {
            return exec_encoders(l, st);
        }
        let built = build_stream(&l.segs);
        count_wire_faults(st, &built);
        let stream = &built.stream;
        for (s, info) in l.segs.iter().zip(built.segs.iter()) {
            let n = info.end - info.start;
            match s {
                Seg::Noise(_) | Seg::Raw(_) if n >= 65_536 => st.bump("probe", "long.noise>=65536"),
                Seg::Frame { payload, .. } if payload.len() >= 65_536 => st.bump("probe", "long.payload>=65536"),
                _ => {}
            }
        }
        st.bump("cfg.fe", l.fe.name());
        let mut violation = None;
        let obs = match l.fe {
            Fe::Push => {
                let o = fe::drive_push_kind(l.buf, stream, &l.ops, l.alloc_fail, true);
                for x in &o {
                    if let Item::Probe(v) = &x.item {
                        if v.is_empty() {
                            st.bump("probe", "probe-ok");
                        } else if violation.is_none() {
                            violation = Some(Violation::oracle(
                                "C05.unusable-after-history",
                                format!(
                                    "push decoder buffer {:?}: after the history up to stream offset {} and finalize(), a canonical probe frame was not delivered: {}",
                                    l.buf, x.pos, v
                                ),
                            ));
                        }
                    }
                }
                o
            }
            Fe::Decode => fe::drive_decode(stream),
            Fe::Streaming => fe::drive_streaming_kind(l.buf, stream, l.extra_polls),
            _ => {
                let ss = SrcState::new(stream, &l.src);
                let plan = AppPlan {
                    calls: &l.calls,
                    extra_polls: l.extra_polls,
                    alloc_fail: l.alloc_fail,
                };
                let (o, _) = fe::run_reader(l.fe, l.buf, &ss, &plan, false);
                st.add("fault", "src.fired", ss.fired.get() as u64);
                if l.knob("reader_probe") == 1 && l.alloc_fail == 0 {
                    // the probe frame is the last segment, preceded by an injected error: it must be
                    // the last payload delivered (whatever the target type made of it)
                    let want = match l.segs.last() {
                        Some(Seg::Frame { payload, .. }) => payload.0.clone(),
                        _ => Vec::new(),
                    };
                    let probe_start = built.segs.last().map(|s| s.start).unwrap_or(0);
                    let has_err = l.src.iter().any(|(p, f)| *p == probe_start && matches!(f, SrcFault::Other(_)));
                    let fits = match l.buf {
                        BufKind::Arr(n) => want.len() <= n,
                        _ => true,
                    };
                    if has_err && fits && matches!(l.segs.last(), Some(Seg::Frame { faults, .. }) if faults.is_empty()) {
                        let delivered_at_end = o.iter().any(|x| {
                            x.pos == stream.len()
                                && match &x.item {
                                    Item::Msg(m) => *m == want,
                                    // File / Parser targets: the probe payload is not SML; a parse error
                                    // or an event item at the frame's last byte proves the frame was decoded
                                    Item::Parse(_) | Item::Events(..) | Item::File(_) => true,
                                    _ => false,
                                }
                        });
                        if delivered_at_end {
                            st.bump("probe", "reader-probe-ok");
                        } else {
                            violation = Some(Violation::oracle(
                                "C05.reader-unusable-after-error",
                                format!(
                                    "{} buffer {:?}: after an injected source error at offset {}, the canonical probe frame that follows was not delivered; history:{}",
                                    l.fe.name(),
                                    l.buf,
                                    probe_start,
                                    show_hist(&o)
                                ),
                            ));
                        }
                    }
                }
                o
            }
        };
        if obs.iter().any(|o| matches!(o.item, Item::Dec(DErr::Oom))) {
            st.bump("probe", "oom-seen");
            if l.alloc_fail > 0 {
                st.bump("probe", "alloc-failure-fired");
            }
        }
        let nontrivial = !built.fired.is_empty() || !l.ops.is_empty() || !l.src.is_empty() || l.alloc_fail > 0 || stream.len() > 250;
        finish(st, &obs, violation, nontrivial, (stream.len() + obs.len() + l.ops.len()) as u64)
    }
}

struct NonFused<'a> {
    p: &'a [u8],
    i: usize,
    polled_after_end: &'a std::cell::Cell<u32>,
}
impl<'a> Iterator for NonFused<'a> {
    type Item = u8;
    fn next(&mut self) -> Option<u8> {
        let i = self.i;
        self.i += 1;
        if i < self.p.len() {
            Some(self.p[i])
        } else if i == self.p.len() {
            None
        } else {
            self.polled_after_end.set(self.polled_after_end.get() + 1);
            Some(0x99)
        }
    }
}

/// encoders must not panic whatever the payload, capacity, allocation failure or polling
fn exec_encoders(l: &LinkScn, st: &mut Stats) -> Outcome {
    let payload = match l.segs.first() {
        Some(Seg::Frame { payload, .. }) => &payload.0,
        _ => return Outcome::default(),
    };
    let mut obs = Vec::new();
    // iterator encoder, polled past the end, over a non-fused iterator
    let polled = std::cell::Cell::new(0);
    let mut e = sml_rs::transport::encode_streaming(NonFused {
        p: payload,
        i: 0,
        polled_after_end: &polled,
    });
    let mut out = Vec::new();
    let mut nones = 0;
    for _ in 0..payload.len() * 2 + 64 + l.extra_polls {
        match e.next() {
            Some(b) => out.push(b),
            None => {
                nones += 1;
                if nones > l.extra_polls {
                    break;
                }
            }
        }
    }
    obs.push(Obs {
        pos: out.len(),
        item: Item::Msg(vec![nones.min(255) as u8]),
    });
    // the encoder is lazy, so an endless source (or one whose size hint is at the limits of usize)
    // is a legal input: asking for the hint and taking a few bytes must not overflow anything
    {
        struct Hinted<'a> {
            p: &'a [u8],
            i: usize,
            hint: (usize, Option<usize>),
        }
        impl<'a> Iterator for Hinted<'a> {
            type Item = u8;
            fn next(&mut self) -> Option<u8> {
                let b = self.p.get(self.i % self.p.len().max(1)).copied().unwrap_or(0x5a);
                self.i += 1;
                Some(b)
            }
            fn size_hint(&self) -> (usize, Option<usize>) {
                self.hint
            }
        }
        for hint in [(usize::MAX, None), (usize::MAX - 3, Some(usize::MAX)), (0, Some(usize::MAX)), (usize::MAX / 2 + 1, None), (0, None)] {
            let mut e = sml_rs::transport::encode_streaming(Hinted { p: payload, i: 0, hint });
            let mut taken = 0usize;
            for k in 0..(20 + payload.len().min(40)) {
                let _ = e.size_hint();
                if k % 3 == 0 {
                    let _ = (&mut e).take(2).count();
                    taken += 2;
                } else if e.next().is_some() {
                    taken += 1;
                }
            }
            obs.push(Obs { pos: taken, item: Item::Nothing });
        }
        // and over the ordinary finite source: the hint is asked in every state
        let mut e = sml_rs::transport::encode_streaming(payload.iter());
        loop {
            let _ = e.size_hint();
            if e.next().is_none() {
                let _ = e.size_hint();
                break;
            }
        }
        st.bump("probe", "size-hint-probed");
    }
    // buffer encoder
    let armed = if l.alloc_fail > 0 && l.buf == BufKind::Vec {
        Some(crate::alloc::arm(l.alloc_fail))
    } else {
        None
    };
    let res: Result<usize, ()> = with_buf!(l.buf, B => {
        let r = match &armed {
            Some(a) => a.call(|| sml_rs::transport::encode::<B>(payload)),
            None => sml_rs::transport::encode::<B>(payload),
        };
        r.map(|b| b.len()).map_err(|_| ())
    });
    if let Some(a) = &armed {
        if a.stats().failed > 0 {
            st.bump("probe", "alloc-failure-fired");
        }
    }
    drop(armed);
    if res.is_err() {
        st.bump("probe", "oom-seen");
    }
    obs.push(Obs {
        pos: 0,
        item: match res {
            Ok(n) => Item::Reset(n),
            Err(()) => Item::Dec(DErr::Oom),
        },
    });
    if payload.len() >= 65_536 {
        st.bump("probe", "long.payload>=65536");
    }
    finish(st, &obs, None, true, (payload.len() * 2) as u64)
}
