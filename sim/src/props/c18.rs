//! C18 — ArrayBuf<N> refines a capacity-bounded byte vector (BUF engine).

use super::*;
use crate::core::{Outcome, Prop, Stats, Tier, Violation};
use crate::hexbytes::{hex, Hx};
use crate::rng::Rng;
use crate::scn::{BufOp, BufScn, Scenario};
use sml_rs::util::{ArrayBuf, Buffer, OutOfMemory};

pub struct C18Prop;
pub static C18: C18Prop = C18Prop;

pub const CAPS: [usize; 14] = [0, 1, 2, 3, 4, 5, 7, 8, 16, 64, 256, 1024, 300, 70_000];

/// the model: Vec<u8> + limit
struct Model {
    v: Vec<u8>,
    n: usize,
}
impl Model {
    fn apply(&mut self, op: &BufOp) -> Option<bool> {
        match op {
            BufOp::Push(b) => {
                if self.v.len() < self.n {
                    self.v.push(*b);
                    Some(true)
                } else {
                    Some(false)
                }
            }
            BufOp::Extend(s) => {
                if self.v.len() + s.len() <= self.n {
                    self.v.extend_from_slice(s);
                    Some(true)
                } else {
                    Some(false)
                }
            }
            BufOp::Truncate(k) => {
                if *k < self.v.len() {
                    self.v.truncate(*k);
                }
                None
            }
            BufOp::Clear => {
                self.v.clear();
                None
            }
            BufOp::FromIter(s) => {
                self.v = s.0.clone();
                None
            }
        }
    }
}

fn apply_real<const N: usize>(b: &mut ArrayBuf<N>, op: &BufOp) -> Option<bool> {
    match op {
        BufOp::Push(x) => Some(b.push(*x) == Ok(())),
        BufOp::Extend(s) => Some(b.extend_from_slice(s) == Ok(())),
        BufOp::Truncate(k) => {
            b.truncate(*k);
            None
        }
        BufOp::Clear => {
            b.clear();
            None
        }
        BufOp::FromIter(s) => {
            if s.len() % 3 == 2 {
                // an iterator that is not fused: after its end it would yield more; collecting must
                // stop at the first None and not ask again
                let mut i = 0usize;
                let it = std::iter::from_fn(|| {
                    let k = i;
                    i += 1;
                    if k < s.len() {
                        Some(s.0[k])
                    } else if k == s.len() {
                        None
                    } else {
                        Some(0xee)
                    }
                });
                *b = it.collect::<ArrayBuf<N>>();
            } else if s.len() % 2 == 1 {
                // an iterator that yields at most N bytes but cannot promise so up front
                // (size_hint upper bound = length of the underlying source > N)
                let total = s.len() + N + 3;
                *b = (0..total).filter_map(|i| s.0.get(i).copied()).collect::<ArrayBuf<N>>();
            } else {
                *b = s.0.iter().copied().collect::<ArrayBuf<N>>();
            }
            None
        }
    }
}

fn run_arr<const N: usize>(s: &BufScn, st: &mut Stats) -> (Option<Violation>, Vec<Obs>) {
    let mut a: ArrayBuf<N> = Default::default();
    let mut ma = Model { v: Vec::new(), n: N };
    let mut b: ArrayBuf<N> = Default::default();
    let mut mb = Model { v: Vec::new(), n: N };
    let mut obs = Vec::new();
    let steps = s.ops.len().max(s.ops_b.len());
    for i in 0..steps {
        for (which, buf, model, ops) in [(0, &mut a, &mut ma, &s.ops), (1, &mut b, &mut mb, &s.ops_b)] {
            let Some(op) = ops.get(i) else { continue };
            if let BufOp::FromIter(x) = op {
                if x.len() > N {
                    continue; // overflow panics by documented design (test_from_panic)
                }
            }
            let before = buf.to_vec();
            let r = apply_real::<N>(buf, op);
            let m = model.apply(op);
            if which == 0 {
                obs.push(Obs {
                    pos: buf.len(),
                    item: match r {
                        Some(true) => Item::Nothing,
                        Some(false) => Item::Dec(DErr::Oom),
                        None => Item::FinNone,
                    },
                });
            }
            if r == Some(false) {
                st.bump("probe", "oom");
                if buf.to_vec() != before {
                    return (
                        Some(Violation::oracle(
                            "C18.failed-op-changed-contents",
                            format!("ArrayBuf<{}> step {} {:?}: returned OutOfMemory but the contents changed from {} to {}", N, i, op, hex(&before), hex(buf)),
                        )),
                        obs,
                    );
                }
            }
            if r != m {
                return (
                    Some(Violation::oracle(
                        "C18.result",
                        format!("ArrayBuf<{}> step {} {:?}: returned ok={:?}, the bounded vector says ok={:?} (contents before: {} bytes)", N, i, op, r, m, before.len()),
                    )),
                    obs,
                );
            }
            if buf[..] != model.v[..] || buf.len() != model.v.len() {
                return (
                    Some(Violation::oracle(
                        "C18.contents",
                        format!("ArrayBuf<{}> step {} {:?}: contents {} (len {}) but the bounded vector holds {} (len {})", N, i, op, hex(buf), buf.len(), hex(&model.v), model.v.len()),
                    )),
                    obs,
                );
            }
            if buf.len() == N {
                st.bump("probe", "full");
            }
        }
        // equality and Debug depend only on the visible contents
        let eq_real = a == b;
        let eq_model = ma.v == mb.v;
        if eq_real != eq_model {
            return (
                Some(Violation::oracle(
                    "C18.equality",
                    format!("ArrayBuf<{}> after step {}: a == b is {} but the contents are {} / {}", N, i, eq_real, hex(&ma.v), hex(&mb.v)),
                )),
                obs,
            );
        }
        if eq_model {
            st.bump("probe", "equal-contents-different-history");
            let mut forms: Vec<(&str, String, String, String)> = vec![
                ("{:?}", format!("{:?}", a), format!("{:?}", b), format!("{:?}", &ma.v[..])),
                ("{:x?}", format!("{:x?}", a), format!("{:x?}", b), format!("{:x?}", &ma.v[..])),
                ("{:#?}", format!("{:#?}", a), format!("{:#?}", b), format!("{:#?}", &ma.v[..])),
            ];
            if ma.v.len() <= 300 {
                // every formatter parameter a caller can pass: precision, width, fill and alignment,
                // sign, zero padding, upper-case hex, combinations (short contents only: a
                // 70 000-byte buffer printed 14 ways per step is all cost)
                forms.extend([
                    ("{:.0?}", format!("{:.0?}", a), format!("{:.0?}", b), String::new()),
                    ("{:.3?}", format!("{:.3?}", a), format!("{:.3?}", b), String::new()),
                    ("{:.300?}", format!("{:.300?}", a), format!("{:.300?}", b), String::new()),
                    ("{:12.5?}", format!("{:12.5?}", a), format!("{:12.5?}", b), String::new()),
                    ("{:*<9?}", format!("{:*<9?}", a), format!("{:*<9?}", b), String::new()),
                    ("{:>1?}", format!("{:>1?}", a), format!("{:>1?}", b), String::new()),
                    ("{:+?}", format!("{:+?}", a), format!("{:+?}", b), String::new()),
                    ("{:04?}", format!("{:04?}", a), format!("{:04?}", b), String::new()),
                    ("{:X?}", format!("{:X?}", a), format!("{:X?}", b), String::new()),
                    ("{:#06x?}", format!("{:#06x?}", a), format!("{:#06x?}", b), String::new()),
                    ("{:#.65535?}", format!("{:#.65535?}", a), format!("{:#.65535?}", b), String::new()),
                ]);
            }
            for (name, da, db, dm) in forms {
                let _ = dm;
                if da != db {
                    return (
                        Some(Violation::oracle(
                            "C18.debug",
                            format!("ArrayBuf<{}> after step {}: two buffers with equal contents {} print differently with {}: {} vs {}", N, i, hex(&ma.v), name, da, db),
                        )),
                        obs,
                    );
                }
            }
        }
    }
    (None, obs)
}

/// Vec<u8> as Buffer with allocation failure: a failed op returns OutOfMemory and leaves the contents unchanged
fn run_vec(s: &BufScn, st: &mut Stats) -> (Option<Violation>, Vec<Obs>) {
    let mut v: Vec<u8> = Vec::new();
    let mut model: Vec<u8> = Vec::new();
    let mut obs = Vec::new();
    let armed = crate::alloc::arm(s.alloc_fail);
    for (i, op) in s.ops.iter().enumerate() {
        let before = v.clone();
        let failed_before = armed.stats().failed;
        let r: Option<Result<(), OutOfMemory>> = match op {
            BufOp::Push(b) => Some(armed.call(|| Buffer::push(&mut v, *b))),
            BufOp::Extend(x) => Some(armed.call(|| Buffer::extend_from_slice(&mut v, x))),
            BufOp::Truncate(k) => {
                Buffer::truncate(&mut v, *k);
                None
            }
            BufOp::Clear => {
                Buffer::clear(&mut v);
                None
            }
            BufOp::FromIter(_) => None,
        };
        let fired = armed.stats().failed > failed_before;
        if fired {
            st.bump("probe", "alloc-failure-fired");
        }
        match (op, &r) {
            (BufOp::Push(b), Some(Ok(()))) => model.push(*b),
            (BufOp::Extend(x), Some(Ok(()))) => model.extend_from_slice(x),
            (BufOp::Truncate(k), _) => {
                if *k < model.len() {
                    model.truncate(*k)
                }
            }
            (BufOp::Clear, _) => model.clear(),
            _ => {}
        }
        obs.push(Obs {
            pos: v.len(),
            item: match r {
                Some(Ok(())) => Item::Nothing,
                Some(Err(_)) => Item::Dec(DErr::Oom),
                None => Item::FinNone,
            },
        });
        if let Some(Err(_)) = r {
            if !fired {
                return (Some(Violation::oracle("C18.vec-oom-without-fault", format!("Vec<u8> step {} {:?}: OutOfMemory although no allocation failed", i, op))), obs);
            }
            if v != before {
                return (Some(Violation::oracle("C18.failed-op-changed-contents", format!("Vec<u8> step {} {:?}: returned OutOfMemory but the contents changed", i, op))), obs);
            }
        }
        if v != model {
            return (Some(Violation::oracle("C18.contents", format!("Vec<u8> step {} {:?}: contents {} but the model holds {}", i, op, hex(&v), hex(&model)))), obs);
        }
    }
    drop(armed);
    (None, obs)
}

fn gen_ops(rng: &mut Rng, n: usize, count: usize, model_len: &mut usize) -> Vec<BufOp> {
    let mut ops = Vec::new();
    for _ in 0..count {
        let free = n.saturating_sub(*model_len);
        let op = match rng.weighted(&[30, 30, 15, 5, 6]) {
            0 => BufOp::Push(rng.byte()),
            1 => {
                // lengths around the free space
                let len = match rng.below(7) {
                    0 => 0,
                    1 => free.saturating_sub(1),
                    2 => free,
                    3 => free + 1,
                    // around the 8- and 16-bit limits (only large capacities can take them)
                    4 if n >= 300 => *rng.pick(&[254usize, 255, 256, 257]),
                    4 if n >= 70_000 => *rng.pick(&[65_534usize, 65_535, 65_536, 65_537]),
                    _ => rng.below(free.min(12) + 2),
                }
                .min(70_100);
                BufOp::Extend(Hx(rng.bytes(len)))
            }
            2 => BufOp::Truncate(match rng.below(7) {
                0 => usize::MAX,
                1 => *model_len,
                2 => *model_len + 1,
                // far beyond the length, but with small low-order bits: must still be a no-op
                3 => ((rng.range(1, 3)) << *rng.pick(&[8u32, 16, 32, 48])) | rng.below(*model_len + 1),
                4 => (1usize << *rng.pick(&[8u32, 16, 32, 63])) + rng.below(3),
                _ => rng.below(*model_len + 1),
            }),
            3 => BufOp::Clear,
            _ => {
                // up to the full capacity: short, within three of N, anywhere below ~1100, and around the
                // powers of two at which an implementation might collect block-wise
                let len = match rng.below(4) {
                    0 => rng.below(n.min(16) + 1),
                    1 => n - rng.below(n.min(3) + 1),
                    2 => rng.below(n.min(1100) + 1),
                    _ => (*rng.pick(&[7usize, 8, 9, 15, 16, 17, 31, 32, 33, 34, 63, 64, 65, 66, 127, 128, 129, 255, 256, 257])).min(n),
                };
                BufOp::FromIter(Hx(rng.bytes(len)))
            }
        };
        // track the model length for the next draw
        match &op {
            BufOp::Push(_) => {
                if *model_len < n {
                    *model_len += 1
                }
            }
            BufOp::Extend(s) => {
                if *model_len + s.len() <= n {
                    *model_len += s.len()
                }
            }
            BufOp::Truncate(k) => *model_len = (*model_len).min(*k),
            BufOp::Clear => *model_len = 0,
            BufOp::FromIter(s) => *model_len = s.len(),
        }
        ops.push(op);
    }
    ops
}

impl Prop for C18Prop {
    fn id(&self) -> &'static str {
        "C18"
    }
    fn runs(&self, tier: Tier) -> u64 {
        match tier {
            Tier::Quick => 300_000,
            Tier::Thorough => 12_000_000,
        }
    }
    fn rule(&self) -> &'static str {
        "operation histories of 1-40 steps over {push, extend_from_slice (lengths free-1, free, free+1, 0, random), truncate (k < len, = len, > len, usize::MAX, multiples of 2^8 / 2^16 / 2^32 plus a small remainder), clear, from_iter (<= N items: short, within three of N, anywhere below 1100, around powers of two)} on two ArrayBuf<N> (N in 0,1,2,3,4,5,7,8,16,64,256,300,1024 and, rarely, 70000 with slices around 2^16) checked step by step against a capacity-bounded Vec model, with ==, {:?}, {:x?}, {:#?} and eleven further format specifications (precision, width, fill, sign, zero padding, upper-case hex) compared between the two buffers whenever their contents are equal (different histories leave different stale bytes behind the length); Vec<u8> as Buffer runs the same histories with the k-th allocation failing. Non-trivial = at least one operation hit the capacity limit or an allocation failure; distinct = scenario fingerprint"
    }
    fn assumptions(&self) -> Vec<&'static str> {
        vec!["from_iter is driven with at most N items (overflow panics by documented design, test_from_panic)"]
    }
    fn required_probes(&self, _tier: Tier) -> Vec<&'static str> {
        vec!["probe.oom", "probe.full", "probe.equal-contents-different-history", "probe.alloc-failure-fired"]
    }

    fn gen(&self, rng: &mut Rng, _tier: Tier) -> Scenario {
        if rng.chance(1, 6) {
            let mut ml = 0;
            let count = rng.range(1, 30);
            let ops = gen_ops(rng, 4096, count, &mut ml)
                .into_iter()
                .filter(|o| !matches!(o, BufOp::FromIter(_)))
                .collect();
            return Scenario::Buf(BufScn {
                prop: "C18".into(),
                sub: "vec-alloc-failure".into(),
                n: usize::MAX,
                ops,
                ops_b: vec![],
                alloc_fail: rng.range(1, 6) as u64,
            });
        }
        let n = if rng.chance(1, 60) { 70_000 } else { *rng.pick(&CAPS[..13]) };
        let count = if n == 70_000 { rng.range(1, 8) } else { rng.range(1, 40) };
        let mut ml = 0;
        let ops = gen_ops(rng, n, count, &mut ml);
        // second buffer: a different history that ends (often) in the same contents:
        // same ops preceded by junk that is then cleared / truncated away
        let mut ops_b = Vec::new();
        match rng.below(3) {
            0 => {
                let k = rng.below(n.min(8) + 1);
                ops_b.push(BufOp::Extend(Hx(rng.bytes(k))));
                ops_b.push(BufOp::Clear);
                ops_b.extend(ops.iter().cloned());
            }
            1 => {
                let mut ml2 = 0;
                ops_b = gen_ops(rng, n, count, &mut ml2);
            }
            _ => {
                ops_b.push(BufOp::FromIter(Hx(rng.bytes(n.min(5)))));
                ops_b.push(BufOp::Truncate(0));
                ops_b.extend(ops.iter().cloned());
            }
        }
        // align: the first buffer idles (Truncate(usize::MAX) is a no-op) while the second one dirties itself
        let shift = ops_b.len().saturating_sub(ops.len());
        let mut ops_a = vec![BufOp::Truncate(usize::MAX); shift];
        ops_a.extend(ops);
        Scenario::Buf(BufScn {
            prop: "C18".into(),
            sub: "arraybuf".into(),
            n,
            ops: ops_a,
            ops_b,
            alloc_fail: 0,
        })
    }

    fn exec(&self, scn: &Scenario, st: &mut Stats) -> Outcome {
        let s = buf(scn);
        let (violation, obs) = if s.n == usize::MAX {
            run_vec(s, st)
        } else {
            match s.n {
                0 => run_arr::<0>(s, st),
                1 => run_arr::<1>(s, st),
                2 => run_arr::<2>(s, st),
                3 => run_arr::<3>(s, st),
                4 => run_arr::<4>(s, st),
                5 => run_arr::<5>(s, st),
                7 => run_arr::<7>(s, st),
                8 => run_arr::<8>(s, st),
                16 => run_arr::<16>(s, st),
                64 => run_arr::<64>(s, st),
                256 => run_arr::<256>(s, st),
                1024 => run_arr::<1024>(s, st),
                300 => run_arr::<300>(s, st),
                70_000 => run_arr::<70_000>(s, st),
                _ => return Outcome::default(),
            }
        };
        let nontrivial = obs.iter().any(|o| matches!(o.item, Item::Dec(DErr::Oom)));
        finish(st, &obs, violation, nontrivial, (s.ops.len() + s.ops_b.len()) as u64)
    }
}
