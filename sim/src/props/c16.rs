//! C16 — buffer need = payload length; overflow is an error, never truncation.

use super::*;
use crate::core::{Outcome, Prop, Stats, Tier, Violation};
use crate::fe::{self, BufKind, Fe, LADDER};
use crate::gen;
use crate::hexbytes::Hx;
use crate::refenc::noise_ok;
use crate::rng::Rng;
use crate::scn::{build_stream, Enc, LinkScn, Scenario, Seg};

pub struct C16Prop;
pub static C16: C16Prop = C16Prop;

fn run_fe(fe: Fe, buf: BufKind, stream: &[u8]) -> Vec<Obs> {
    let mut o = fe::run_plain(fe, buf, stream, 0);
    if fe == Fe::RdEh {
        // the embedded-hal source has no end of input; the mock's sticky "line dead" error with
        // nothing pending plays the part of the end
        if let Some(last) = o.last_mut() {
            if matches!(&last.item, Item::Io(IoKind::Other(s), 0) if *s == fe::eh_end_name()) {
                last.item = Item::End;
            }
        }
    }
    o
}

/// the push decoder handed a buffer that still holds data (Decoder::from_buf)
fn run_fe_dirty(fe: Fe, buf: BufKind, stream: &[u8], dirty: bool) -> Vec<Obs> {
    if dirty && fe == Fe::Push {
        fe::drive_push_dirty_kind(buf, stream, &[0xd1, 0x00, 0x1b, 0xd4, 0xd5, 0x00, 0x00, 0xd8])
    } else {
        run_fe(fe, buf, stream)
    }
}

impl Prop for C16Prop {
    fn id(&self) -> &'static str {
        "C16"
    }
    fn runs(&self, tier: Tier) -> u64 {
        match tier {
            Tier::Quick => 40_000,
            Tier::Thorough => 4_000_000,
        }
    }
    fn rule(&self) -> &'static str {
        "payload m with |m| on the compiled capacity ladder (0..40 dense, 48..8193 sparse; tails of zeros and 1b forced in half of the runs; a class of payloads ending in 250..260 / 505..515 zeros; push decoder also built with from_buf over a dirty buffer; embedded-hal reader with a static buffer), followed by a second frame m2; every ladder capacity N in 0..=|m|+1 (all of them for |m| <= 40, the neighbours of |m| above) through push decoder / decode_streaming / SmlReader::with_static_buffer::<N>() over slice, iterator, io::Read, and the default 8 KiB reader buffer for |m| in {8191, 8192, 8193}. Non-trivial = |m| > 0; distinct = scenario fingerprint; each run evaluates up to 43 capacities (counted in counters.capacity-evaluations)"
    }
    fn assumptions(&self) -> Vec<&'static str> {
        vec![
            "'ready for the next frame' is asserted through a fresh twin on the remaining bytes, and through delivery of the following frame only when the undelivered remainder satisfies the C08 noise condition",
        ]
    }
    fn required_probes(&self, _tier: Tier) -> Vec<&'static str> {
        vec!["probe.exact-fit", "probe.one-short", "probe.next-frame-after-oom", "probe.default-8k", "probe.zero-tail-exact-fit"]
    }

    fn directed(&self, _tier: Tier) -> Vec<Scenario> {
        let mut v = Vec::new();
        // payload tails of zeros / 1b at every length 0..=12, every front-end
        for len in 0..=12usize {
            for tail in 0..=len.min(6) {
                for kind in [0x00u8, 0x1b] {
                    for fe in [Fe::Push, Fe::Streaming, Fe::RdIter, Fe::RdSlice, Fe::RdIo, Fe::RdEh] {
                        let mut p: Vec<u8> = (0..len - tail).map(|i| 0x31 + i as u8).collect();
                        p.extend(std::iter::repeat(kind).take(tail));
                        let mut l = LinkScn::new("C16", "directed-tails", fe, BufKind::Vec);
                        l.segs.push(Seg::Frame { payload: Hx(p), enc: Enc::Buf, faults: vec![] });
                        l.segs.push(Seg::Frame { payload: Hx(vec![0x61, 0x62, 0x00]), enc: Enc::Iter, faults: vec![] });
                        v.push(Scenario::Link(l));
                    }
                }
            }
        }
        for n in [8191usize, 8192, 8193] {
            for fe in [Fe::RdIter, Fe::RdSlice, Fe::RdIo] {
                for fill in [0x00u8, 0x44] {
                    let mut l = LinkScn::new("C16", "directed-default-8k", fe, BufKind::Default);
                    l.segs.push(Seg::Frame { payload: Hx(vec![fill; n]), enc: Enc::Buf, faults: vec![] });
                    l.segs.push(Seg::Frame { payload: Hx(vec![1, 2, 3]), enc: Enc::Buf, faults: vec![] });
                    v.push(Scenario::Link(l));
                }
            }
        }
        v
    }

    fn gen(&self, rng: &mut Rng, tier: Tier) -> Scenario {
        let fe = *rng.pick(&[Fe::Push, Fe::Streaming, Fe::RdIter, Fe::RdSlice, Fe::RdIo, Fe::RdEh]);
        let default8k = fe.is_reader() && rng.chance(1, 40);
        let len = if default8k {
            *rng.pick(&[8191usize, 8192, 8193])
        } else if rng.chance(1, 400) {
            // beyond 2^16: the fill level of a fixed buffer must not be a 16-bit quantity
            *rng.pick(&[65_536usize, 70_000])
        } else if rng.chance(1, 25) {
            *rng.pick(&[48usize, 64, 96, 128, 255, 256, 257, 512, 1024, 2048, 4096, 8191, 8192])
        } else {
            rng.range(0, 40)
        };
        let mut m = gen::gen_payload_len(rng, len);
        if !default8k && rng.chance(1, 30) {
            // a payload that ends in more zeros than a byte can count (all of them are withheld
            // until the end sequence proves which are padding)
            m = gen::gen_payload_upto(rng, 8);
            let z = if rng.chance(1, 2) { rng.range(250, 260) } else { rng.range(505, 515) };
            m.extend(std::iter::repeat(0u8).take(z));
        }
        let m2 = gen::gen_payload_upto(rng, 12);
        let mut l = LinkScn::new("C16", if default8k { "default-8k" } else { "ladder" }, fe, if default8k { BufKind::Default } else { BufKind::Vec });
        l.segs.push(Seg::Frame { payload: Hx(m), enc: gen::gen_enc(rng), faults: vec![] });
        l.segs.push(Seg::Frame { payload: Hx(m2), enc: gen::gen_enc(rng), faults: vec![] });
        let _ = tier;
        if fe == Fe::Push && rng.chance(1, 2) {
            l.knobs.insert("from_buf_dirty".into(), 1);
        }
        Scenario::Link(l)
    }

    fn exec(&self, scn: &Scenario, st: &mut Stats) -> Outcome {
        let l = link(scn);
        let (m, m2full) = match &l.segs[..] {
            [Seg::Frame { payload: a, faults: fa, .. }, Seg::Frame { payload: b, faults: fb, .. }] if fa.is_empty() && fb.is_empty() => (a.0.clone(), b.0.clone()),
            _ => return Outcome::default(),
        };
        let lm = m.len();
        if l.fe == Fe::Decode {
            return Outcome::default();
        }
        // capacities to evaluate
        let caps: Vec<BufKind> = if l.buf == BufKind::Default {
            st.bump("probe", "default-8k");
            vec![BufKind::Default]
        } else if lm <= 40 {
            LADDER.iter().copied().filter(|n| *n <= fe::ladder_at_least(lm + 1)).map(BufKind::Arr).collect()
        } else {
            let mut c: Vec<usize> = vec![0, 1];
            let idx = LADDER.iter().position(|n| *n >= lm).unwrap_or(LADDER.len() - 1);
            for k in idx.saturating_sub(2)..=(idx + 1).min(LADDER.len() - 1) {
                c.push(LADDER[k]);
            }
            c.sort();
            c.dedup();
            c.into_iter().filter(|n| *n <= 8193 || lm > 8193).map(BufKind::Arr).collect()
        };
        let f1 = build_stream(&l.segs[..1]).stream;
        let mut violation: Option<Violation> = None;
        let mut first_obs: Vec<Obs> = Vec::new();
        let tail_zeros = m.iter().rev().take_while(|b| **b == 0).count();
        for bk in &caps {
            let n = match bk {
                BufKind::Arr(n) => *n,
                _ => 8192,
            };
            st.bump("counters", "capacity-evaluations");
            // the second frame must fit the buffer under test
            let m2: Vec<u8> = m2full[..m2full.len().min(n)].to_vec();
            let mut stream = f1.clone();
            let f2 = refenc(&m2);
            stream.extend_from_slice(&f2);
            let dirty = l.knob("from_buf_dirty") == 1;
            if dirty && l.fe == Fe::Push {
                st.bump("probe", "from_buf-dirty");
            }
            let obs = run_fe_dirty(l.fe, *bk, &stream, dirty);
            if first_obs.is_empty() {
                first_obs = obs.clone();
            }
            let got = items(&obs);
            let term = terminal_clean(l.fe, 0);
            let ctx = |what: &str| format!("{} with capacity {} (|m| = {}): {}; log:{}", l.fe.name(), n, lm, what, show_hist(&obs));
            if n >= lm {
                if n == lm {
                    st.bump("probe", "exact-fit");
                    if tail_zeros > 0 {
                        st.bump("probe", "zero-tail-exact-fit");
                    }
                }
                let mut exp = vec![Item::Msg(m.clone()), Item::Msg(m2.clone())];
                exp.extend(term.clone());
                if got != exp && violation.is_none() {
                    violation = Some(Violation::oracle(
                        "C16.fits-but-not-delivered",
                        ctx(&format!("capacity >= payload length, expected {}", show_items(&exp))),
                    ));
                }
            } else {
                if n + 1 == lm {
                    st.bump("probe", "one-short");
                }
                // first result is OutOfMemory
                match obs.first() {
                    Some(Obs { item: Item::Dec(DErr::Oom), pos }) => {
                        // no altered payload ever (C02 clause)
                        if let Err(e) = super::c02::check_sound(&stream, &obs, l.fe.has_pos()) {
                            if violation.is_none() {
                                violation = Some(Violation::oracle("C16.altered-payload", ctx(&e)));
                            }
                        }
                        if l.fe.has_pos() {
                            let p = *pos;
                            // fresh twin on the remaining bytes
                            let twin = run_fe(l.fe, *bk, &stream[p..]);
                            let rest: Vec<Item> = got[1..].to_vec();
                            if rest != items(&twin) && violation.is_none() {
                                violation = Some(Violation::oracle(
                                    "C16.not-ready-after-oom",
                                    ctx(&format!(
                                        "after the out-of-memory error at offset {} the decoder continued with {} but a fresh one on the same remaining bytes gives {}",
                                        p,
                                        show_items(&rest),
                                        show_items(&items(&twin))
                                    )),
                                ));
                            }
                            // delivery of the next frame when the remainder is plain noise
                            let r = &f1[p.min(f1.len())..];
                            if p <= f1.len() && noise_ok(r) {
                                let mut exp = Vec::new();
                                if !r.is_empty() {
                                    exp.push(Item::Dec(DErr::Discarded(r.len())));
                                }
                                exp.push(Item::Msg(m2.clone()));
                                exp.extend(term.clone());
                                st.bump("probe", "next-frame-after-oom");
                                if rest != exp && violation.is_none() {
                                    violation = Some(Violation::oracle(
                                        "C16.next-frame-lost",
                                        ctx(&format!("after the out-of-memory error at offset {} expected {}", p, show_items(&exp))),
                                    ));
                                }
                            }
                        }
                    }
                    other => {
                        if violation.is_none() {
                            violation = Some(Violation::oracle(
                                "C16.no-oom",
                                ctx(&format!("capacity below the payload length, expected OutOfMemory first, got {:?}", other.map(|o| o.item.short()))),
                            ));
                        }
                    }
                }
            }
            if violation.is_some() {
                break;
            }
        }
        finish(st, &first_obs, violation, lm > 0, (caps.len() * (f1.len() + 30)) as u64)
    }
}
