//! C14 — no memory across transmission boundaries (twin oracle).

use super::*;
use crate::with_buf;
use crate::core::{Outcome, Prop, Stats, Tier, Violation};
use crate::fe::{self, BufKind, Fe, PushOp, LADDER};
use crate::gen::{self, StreamMix};
use crate::hexbytes::Hx;
use crate::rng::Rng;
use crate::scn::{build_stream, LinkScn, Scenario, Seg};
use sml_rs::transport::Decoder;
use sml_rs::util::Buffer;

pub struct C14Prop;
pub static C14: C14Prop = C14Prop;

struct TwinReport {
    obs: Vec<Obs>,
    boundaries: Vec<(usize, &'static str)>,
    mismatch: Option<String>,
}

fn boundary_kind(item: &Item) -> Option<&'static str> {
    match item {
        Item::Msg(_) => Some("delivered"),
        Item::Dec(DErr::InvalidMsg { .. }) => Some("invalid-message"),
        Item::Dec(DErr::InvalidEsc(_)) => Some("invalid-esc"),
        Item::Dec(DErr::Oom) => Some("out-of-memory"),
        Item::Reset(_) => Some("reset"),
        Item::FinNone | Item::Fin(_) => Some("finalize"),
        _ => None,
    }
}

/// Drive the main decoder; at every boundary start a fresh twin; both get the
/// same bytes and calls; every return value must agree until the next boundary.
fn twin_run<B: Buffer>(stream: &[u8], ops: &[(usize, PushOp)], dirty: Option<&[u8]>) -> TwinReport {
    let mut main = match dirty {
        Some(d) => {
            let mut b: B = Default::default();
            let _ = b.extend_from_slice(&d[..d.len().min(64)]).or_else(|_| {
                // capacity smaller than the junk: fill what fits
                for x in d {
                    if b.push(*x).is_err() {
                        break;
                    }
                }
                Ok::<(), ()>(())
            });
            Decoder::<B>::from_buf(b)
        }
        None => Decoder::<B>::new(),
    };
    // a decoder built from a dirty buffer must already behave like a new one
    let mut twin: Option<(Decoder<B>, usize, &'static str)> = if dirty.is_some() {
        Some((Decoder::<B>::new(), 0, "from_buf(dirty)"))
    } else {
        None
    };
    let mut rep = TwinReport {
        obs: Vec::new(),
        boundaries: Vec::new(),
        mismatch: None,
    };
    let mut oi = 0;
    for i in 0..=stream.len() {
        while oi < ops.len() && ops[oi].0 <= i {
            if ops[oi].0 == i {
                let (im, it) = match ops[oi].1 {
                    PushOp::Finalize => {
                        let f = |d: &mut Decoder<B>| match d.finalize() {
                            None => Item::FinNone,
                            Some(e) => Item::Fin(DErr::from(&e)),
                        };
                        (f(&mut main), twin.as_mut().map(|t| f(&mut t.0)))
                    }
                    PushOp::Reset => {
                        let f = |d: &mut Decoder<B>| Item::Reset(d.reset());
                        (f(&mut main), twin.as_mut().map(|t| f(&mut t.0)))
                    }
                    PushOp::Probe(_) => (Item::Nothing, None),
                };
                if let (Some(tw), Some((_, since, why))) = (&it, &twin) {
                    // reset()/finalize() count bytes since the boundary for both alike, but the main decoder
                    // counts from ITS last boundary too, so the values must be equal
                    if *tw != im && rep.mismatch.is_none() {
                        rep.mismatch = Some(format!(
                            "at offset {} ({:?}): decoder returned {} but a decoder newly constructed at offset {} (boundary: {}) returned {}",
                            i,
                            ops[oi].1,
                            im.short(),
                            since,
                            why,
                            tw.short()
                        ));
                    }
                }
                if im != Item::Nothing {
                    rep.obs.push(Obs { pos: i, item: im.clone() });
                    rep.boundaries.push((i, boundary_kind(&im).unwrap_or("?")));
                    twin = Some((Decoder::<B>::new(), i, boundary_kind(&im).unwrap_or("?")));
                }
            }
            oi += 1;
        }
        if i == stream.len() {
            break;
        }
        let b = stream[i];
        let im = fe::item_of_push(main.push_byte(b));
        if let Some((t, since, why)) = twin.as_mut() {
            let it = fe::item_of_push(t.push_byte(b));
            if it != im && rep.mismatch.is_none() {
                rep.mismatch = Some(format!(
                    "at byte {} (0x{:02x}): decoder returned {} but a decoder newly constructed at offset {} (boundary: {}) returned {}",
                    i,
                    b,
                    im.short(),
                    since,
                    why,
                    it.short()
                ));
            }
        }
        if im != Item::Nothing {
            if let Some(k) = boundary_kind(&im) {
                rep.boundaries.push((i + 1, k));
                twin = Some((Decoder::<B>::new(), i + 1, k));
            }
            rep.obs.push(Obs { pos: i + 1, item: im });
        }
    }
    // final finalize on both
    let fm = match main.finalize() {
        None => Item::FinNone,
        Some(e) => Item::Fin(DErr::from(&e)),
    };
    if let Some((t, since, why)) = twin.as_mut() {
        let ft = match t.finalize() {
            None => Item::FinNone,
            Some(e) => Item::Fin(DErr::from(&e)),
        };
        if ft != fm && rep.mismatch.is_none() {
            rep.mismatch = Some(format!(
                "final finalize(): decoder returned {} but a decoder newly constructed at offset {} (boundary: {}) returned {}",
                fm.short(),
                since,
                why,
                ft.short()
            ));
        }
    }
    rep.obs.push(Obs {
        pos: stream.len(),
        item: fm,
    });
    rep
}

impl Prop for C14Prop {
    fn id(&self) -> &'static str {
        "C14"
    }
    fn runs(&self, tier: Tier) -> u64 {
        match tier {
            Tier::Quick => 200_000,
            Tier::Thorough => 20_000_000,
        }
    }
    fn rule(&self) -> &'static str {
        "arbitrary stream of 1-6 segments (frames intact / with link faults, noise, junk, cut-off and Byzantine frames; zero tails, withheld zeros and half-read escapes occur just before boundaries by construction of the fault placement) x reset()/finalize() injected at arbitrary positions x buffer {Vec, ArrayBuf<N> incl. too small ones} x optional from_buf(dirty). At every boundary event a fresh Decoder::new() twin is started and compared step by step; additionally decode(s1++s2) == decode(s1)++decode(s2) at a boundary split. A quarter of the runs is the reader form (sub-configuration reader-twin): SmlReader over io::Read / embedded-hal / iterator / slice with source faults (would-block, interrupted, hard error, transient end of input); at each of the first three boundaries inside the reader (delivered, invalid message, invalid escape, out of memory, source error, transient end of input) a new reader over the remaining bytes and the remaining source faults must report exactly the same. Non-trivial = at least two boundary events of which one is followed by more bytes; distinct = scenario fingerprint"
    }
    fn assumptions(&self) -> Vec<&'static str> {
        vec!["metamorphic: a defect that affects a continued decoder and a fresh one alike is invisible here (C02 / C08 / C17 carry the independent oracles)"]
    }
    fn required_probes(&self, _tier: Tier) -> Vec<&'static str> {
        vec![
            "probe.boundary.delivered",
            "probe.boundary.invalid-message",
            "probe.boundary.invalid-esc",
            "probe.boundary.out-of-memory",
            "probe.boundary.reset",
            "probe.boundary.finalize",
            "probe.from_buf-dirty",
            "probe.split-checked",
        ]
    }

    fn directed(&self, tier: Tier) -> Vec<Scenario> {
        // a reset() / finalize() at every position of each of a set of characteristic frames,
        // continued by each of those frames: whatever the first one left behind meets every kind
        // of continuation
        let mut frames: Vec<Vec<u8>> = vec![
            vec![],
            vec![0x11, 0x22, 0x33, 0x44],
            vec![0x11, 0x22, 0x33],
            vec![0x11, 0x22, 0x33, 0x1b],
            vec![0x11, 0x22, 0x1b, 0x1b],
            vec![0x11, 0x1b, 0x1b, 0x1b],
            vec![0x11, 0x22, 0x33, 0x44, 0x00, 0x1b, 0x1b, 0x1b],
            vec![0x11, 0x00, 0x00, 0x00],
            vec![0x11, 0x22, 0x00, 0x00, 0x00, 0x00, 0x00],
            vec![0x1b, 0x1b, 0x1b, 0x1b],
            vec![0x11, 0x00, 0x1b, 0x1b, 0x1b, 0x1b, 0x22],
            vec![0x1b, 0x1b, 0x1b, 0x1b, 0x01, 0x01, 0x01, 0x01],
        ];
        if tier == Tier::Thorough {
            frames.push(vec![0x1b; 9]);
            frames.push(vec![0x00; 9]);
            frames.push(vec![0x11, 0x22, 0x33, 0x44, 0x55, 0x1b]);
        }
        let mut v = Vec::new();
        for (i, a) in frames.iter().enumerate() {
            let alen = refenc(a).len();
            for pos in 1..=alen {
                for op in [PushOp::Reset, PushOp::Finalize] {
                    for (j, b) in frames.iter().enumerate() {
                        let buf = if (i + j + pos) % 3 == 0 { BufKind::Vec } else { BufKind::Arr(16) };
                        let mut l = LinkScn::new("C14", "directed-op-at-every-position", Fe::Push, buf);
                        l.segs.push(Seg::Frame { payload: Hx(a.clone()), enc: crate::scn::Enc::Ref, faults: vec![] });
                        l.segs.push(Seg::Frame { payload: Hx(b.clone()), enc: crate::scn::Enc::Ref, faults: vec![] });
                        // the first frame is cut at `pos` by the call; its remaining bytes still follow
                        l.ops.push((pos, op));
                        if (i + j) % 2 == 0 {
                            // ... or do not follow: the call comes at the very end of what was sent
                            l.segs[0] = Seg::Cut { payload: Hx(a.clone()), cut: pos };
                        }
                        v.push(Scenario::Link(l));
                    }
                }
            }
        }
        v
    }

    fn gen(&self, rng: &mut Rng, tier: Tier) -> Scenario {
        if rng.chance(1, 4) {
            return Scenario::Link(gen_reader_twin(rng, tier));
        }
        let buf = match rng.below(4) {
            0 => BufKind::Vec,
            1 => BufKind::Arr(*rng.pick(&LADDER[..20])),
            2 => BufKind::Arr(*rng.pick(&LADDER[20..46])),
            _ => BufKind::Arr(*rng.pick(&[512usize, 1024])),
        };
        let mut l = LinkScn::new("C14", "twin", Fe::Push, buf);
        let mut mix = StreamMix::draw(rng, 200);
        mix.max_segs = rng.range(2, 6);
        l.segs = gen::gen_segs(rng, tier, &mix);
        if buf == BufKind::Vec && rng.chance(1, 200) {
            // a transmission longer than 2^16 in the growable buffer, then more traffic
            let n = *rng.pick(&[65_536usize, 65_537, 65_600]);
            let p = gen::gen_payload_len(rng, n);
            let at = rng.below(l.segs.len());
            l.segs.insert(at, Seg::Frame { payload: Hx(p), enc: crate::scn::Enc::Ref, faults: vec![] });
            l.segs.push(Seg::Frame { payload: Hx(vec![1, 2, 3, 4]), enc: crate::scn::Enc::Ref, faults: vec![] });
            l.sub = "twin-64k".into();
        }
        let len = build_stream(&l.segs).stream.len();
        let nops = rng.below(4);
        let marks = gen::marks_of(&l.segs);
        l.ops = gen::gen_push_ops_biased(rng, len, nops, &marks);
        if rng.chance(1, 5) {
            l.knobs.insert("dirty".into(), rng.range(1, 40) as i64);
        }
        if len <= 96 && rng.chance(1, 3) {
            l.knobs.insert("all_caps".into(), 1);
        }
        Scenario::Link(l)
    }

    fn exec(&self, scn: &Scenario, st: &mut Stats) -> Outcome {
        let l = link(scn);
        if l.sub == "reader-twin" {
            return exec_reader_twin(l, st);
        }
        let built = build_stream(&l.segs);
        count_wire_faults(st, &built);
        let stream = &built.stream;
        let dirty: Option<Vec<u8>> = if l.knob("dirty") > 0 {
            st.bump("probe", "from_buf-dirty");
            Some((0..l.knob("dirty") as usize).map(|i| [0x00u8, 0x1b, 0x01, 0xaa][i % 4]).collect())
        } else {
            None
        };
        if stream.len() > 65_536 {
            st.bump("probe", "stream>2^16");
        }
        let rep: TwinReport = with_buf!(l.buf, B => twin_run::<B>(stream, &l.ops, dirty.as_deref()));
        let mut violation = rep.mismatch.as_ref().map(|m| {
            Violation::oracle("C14.twin-divergence", format!("buffer {:?}: {}", l.buf, m))
        });
        // short streams: every small capacity, so that an overflow lands on every byte of every token
        if violation.is_none() && stream.len() <= 96 && l.knob("all_caps") == 1 {
            for n in crate::fe::LADDER.iter().copied().filter(|n| *n <= 24) {
                let k = BufKind::Arr(n);
                let r: TwinReport = with_buf!(k, B => twin_run::<B>(stream, &l.ops, None));
                st.bump("counters", "capacity-evaluations");
                if let Some(m) = &r.mismatch {
                    violation = Some(Violation::oracle("C14.twin-divergence", format!("buffer {:?}: {}", k, m)));
                    break;
                }
            }
        }
        for (_, k) in &rep.boundaries {
            st.add_dyn(format!("probe.boundary.{}", k), 1);
        }
        // batch form: decode(s1 ++ s2) == decode(s1) ++ decode(s2) for a split at a boundary reached
        // by a byte (not by an API call), growable buffer
        if violation.is_none() && l.ops.is_empty() && l.buf == BufKind::Vec && dirty.is_none() {
            if let Some((split, kind)) = rep
                .boundaries
                .iter()
                .find(|(p, k)| *p > 0 && *p < stream.len() && *k != "reset" && *k != "finalize")
            {
                st.bump("probe", "split-checked");
                let whole = fe::drive_decode(stream);
                let mut parts = fe::drive_decode(&stream[..*split]);
                parts.extend(fe::drive_decode(&stream[*split..]));
                if items(&whole) != items(&parts) {
                    violation = Some(Violation::oracle(
                        "C14.concatenation",
                        format!(
                            "split at offset {} (boundary: {}): decode(s1++s2) = {} but decode(s1)++decode(s2) = {}",
                            split,
                            kind,
                            show_items(&items(&whole)),
                            show_items(&items(&parts))
                        ),
                    ));
                }
            }
        }
        let nb = rep.boundaries.iter().filter(|(p, _)| *p < stream.len()).count();
        finish(st, &rep.obs, violation, nb >= 1 && rep.boundaries.len() >= 2, (stream.len() * 2 + l.ops.len()) as u64)
    }
}

#[allow(dead_code)]
fn unused(_: Hx, _: Seg) {}

// ---------------------------------------------------------------------------
// the same statement for the decoder inside a reader: whenever the reader has delivered a
// transmission, reported a decode error that ends one, or reset its decoder because the source
// failed (hard error, transient end of input), it treats what follows like a new reader would
// ---------------------------------------------------------------------------

fn gen_reader_twin(rng: &mut Rng, tier: Tier) -> LinkScn {
    let fe = *rng.pick(&[Fe::RdIo, Fe::RdIo, Fe::RdEh, Fe::RdIter, Fe::RdSlice]);
    let buf = match rng.below(3) {
        0 => BufKind::Vec,
        1 => BufKind::Arr(*rng.pick(&[8usize, 16, 24, 40])),
        _ => BufKind::Arr(1024),
    };
    let mut l = LinkScn::new("C14", "reader-twin", fe, buf);
    let mut mix = StreamMix::draw(rng, 120);
    mix.max_segs = rng.range(2, 5);
    l.segs = gen::gen_segs(rng, tier, &mix);
    let len = build_stream(&l.segs).stream.len();
    if matches!(fe, Fe::RdIo | Fe::RdEh) {
        let kinds: &[fe::SrcFault] = if fe == Fe::RdIo {
            &[fe::SrcFault::WouldBlock, fe::SrcFault::Interrupted, fe::SrcFault::Other(0), fe::SrcFault::Other(0), fe::SrcFault::Eof(0), fe::SrcFault::Eof(0)]
        } else {
            &[fe::SrcFault::WouldBlock, fe::SrcFault::Other(0), fe::SrcFault::Other(0)]
        };
        let n = rng.range(1, 4);
        let mut src = gen::gen_src_faults(rng, len, n, kinds);
        let marks = gen::marks_of(&l.segs);
        gen::bias_src(rng, &mut src, &marks);
        // one fault per position: which faults are still pending at a boundary is then a matter
        // of positions alone
        src.dedup_by_key(|(p, _)| *p);
        l.src = src;
    }
    let kind = *rng.pick(&[fe::CallKind::Next, fe::CallKind::Next, fe::CallKind::Read, fe::CallKind::NextNb, fe::CallKind::ReadNb]);
    l.calls = vec![fe::Call { kind, target: fe::Target::Bytes, max_events: None }];
    l.extra_polls = rng.below(3);
    l
}

fn exec_reader_twin(l: &LinkScn, st: &mut Stats) -> Outcome {
    let built = build_stream(&l.segs);
    count_wire_faults(st, &built);
    let stream = &built.stream;
    let plan = fe::AppPlan { calls: &l.calls, extra_polls: l.extra_polls, alloc_fail: 0 };
    let src = fe::SrcState::new(stream, &l.src);
    let (obs, _) = fe::run_reader(l.fe, l.buf, &src, &plan, false);
    st.add("fault", "source-fault", src.fired.get() as u64);
    let mut violation = None;
    let mut checked = 0;
    for (k, o) in obs.iter().enumerate() {
        if checked >= 3 || o.pos >= stream.len() {
            break;
        }
        // a boundary: the decoder inside the reader is idle again
        let (kind, by_source) = match &o.item {
            Item::Msg(_) => ("delivered", false),
            Item::Dec(DErr::InvalidMsg { .. }) => ("invalid-message", false),
            Item::Dec(DErr::InvalidEsc(_)) => ("invalid-esc", false),
            Item::Dec(DErr::Oom) => ("out-of-memory", false),
            Item::Io(IoKind::Other(_), _) => ("source-error", true),
            Item::Io(IoKind::Eof, _) | Item::End => ("transient-end-of-input", true),
            _ => continue,
        };
        let p = o.pos;
        // faults not yet delivered at this point (one per position): a boundary reached by a byte
        // leaves the fault *at* the read position pending, one reached by a fault consumed it
        let pending: Vec<(usize, fe::SrcFault)> = l.src.iter().filter(|(q, _)| if by_source { *q > p } else { *q >= p }).map(|(q, f)| (*q - p, *f)).collect();
        if by_source && !l.src.iter().any(|(q, f)| *q == p && matches!(f, fe::SrcFault::Other(_) | fe::SrcFault::Eof(_))) {
            continue;
        }
        let src2 = fe::SrcState::new(&stream[p..], &pending);
        let (twin, _) = fe::run_reader(l.fe, l.buf, &src2, &plan, false);
        let rest: Vec<(usize, &Item)> = obs[k + 1..].iter().map(|x| (x.pos - p, &x.item)).collect();
        let fresh: Vec<(usize, &Item)> = twin.iter().map(|x| (x.pos, &x.item)).collect();
        checked += 1;
        st.add_dyn(format!("probe.reader-boundary.{}", kind), 1);
        if rest != fresh {
            let i = rest.iter().zip(fresh.iter()).position(|(a, b)| a != b).unwrap_or(rest.len().min(fresh.len()));
            violation = Some(Violation::oracle(
                "C14.reader-twin-divergence",
                format!(
                    "{} / {:?}: after the boundary '{}' at offset {} the reader continued with {} but a new reader over the remaining bytes (and the remaining source faults) reports {}",
                    l.fe.name(),
                    l.buf,
                    kind,
                    p,
                    rest.get(i).map(|(q, it)| format!("{}@{}", it.short(), q + p)).unwrap_or_else(|| "nothing more".into()),
                    fresh.get(i).map(|(q, it)| format!("{}@{}", it.short(), q + p)).unwrap_or_else(|| "nothing more".into()),
                ),
            ));
            break;
        }
    }
    finish(st, &obs, violation, checked >= 1, (stream.len() * (1 + checked)) as u64)
}
