//! C15 — replica agreement of the decoding front-ends.

use super::*;
use crate::core::{Outcome, Prop, Stats, Tier, Violation};
use crate::fe::{self, BufKind, Fe};
use crate::gen::{self, StreamMix};
use crate::rng::Rng;
use crate::scn::{build_stream, LinkScn, Scenario};

pub struct C15Prop;
pub static C15: C15Prop = C15Prop;

/// (payloads and decode errors in order, leftover count reported at end of input)
#[derive(PartialEq, Eq, Debug, Clone, Hash)]
struct Normal {
    results: Vec<Item>,
    /// the end-of-input report: None = nothing reported, Some(n) = n leftover bytes reported
    /// (a report of zero bytes is a report)
    leftover: Option<usize>,
}

fn normalise(fe: Fe, obs: &[Obs]) -> Result<Normal, String> {
    let mut results = Vec::new();
    let mut leftover: Option<usize> = None;
    let mut ended = false;
    let marked = match fe {
        Fe::Decode | Fe::Streaming => mark_final(obs),
        _ => obs.to_vec(),
    };
    for o in &marked {
        match &o.item {
            Item::Msg(_) | Item::Dec(_) => {
                if ended {
                    return Err(format!("{} produced {} after its end-of-input report", fe.name(), o.item.short()));
                }
                results.push(o.item.clone());
            }
            Item::Fin(DErr::Discarded(n)) => {
                leftover = Some(*n);
                ended = true;
            }
            Item::FinNone | Item::End => ended = true,
            Item::Io(IoKind::Eof, n) => {
                if ended && *n > 0 {
                    return Err(format!("{} reported IoErr(Eof, {}) after its end-of-input report", fe.name(), n));
                }
                if leftover.is_none() {
                    leftover = Some(*n);
                }
                ended = true;
            }
            other => return Err(format!("{} produced an unexpected item {}", fe.name(), other.short())),
        }
    }
    Ok(Normal { results, leftover })
}

impl Prop for C15Prop {
    fn id(&self) -> &'static str {
        "C15"
    }
    fn runs(&self, tier: Tier) -> u64 {
        match tier {
            Tier::Quick => 60_000,
            Tier::Thorough => 6_000_000,
        }
    }
    fn rule(&self) -> &'static str {
        "one arbitrary stream (1-6 segments: frames intact / with link faults, noise, junk, cut-off and Byzantine frames) tapped by six receivers - push decoder + finalize, decode, decode_streaming, SmlReader over slice / iterator / io::Read - each with Vec and with ArrayBuf<N>, N >= stream length -, plus decode_streaming over a filtered iterator, a push decoder that already served (and finalized) another stream and SmlReader over an io::Read that is interrupted (ErrorKind::Interrupted) between bytes; result logs must agree modulo the documented end-of-input representation. Non-trivial = the log has at least two entries or a non-zero leftover; distinct = scenario fingerprint"
    }
    fn assumptions(&self) -> Vec<&'static str> {
        vec!["metamorphic: a defect common to all front-ends (they share one decoder) is invisible here; C02 / C08 / C17 carry the independent oracles"]
    }
    fn required_probes(&self, _tier: Tier) -> Vec<&'static str> {
        vec!["probe.leftover>0", "probe.log>=3"]
    }

    fn gen(&self, rng: &mut Rng, tier: Tier) -> Scenario {
        let mut l = LinkScn::new("C15", "six-receivers", Fe::Push, BufKind::Vec);
        let mut mix = StreamMix::draw(rng, 300);
        mix.max_segs = rng.range(1, 6);
        l.segs = gen::gen_segs(rng, tier, &mix);
        if rng.chance(1, 300) {
            // a transmission of 2^16 bytes and more: the static buffer must agree with the growable one
            let n = *rng.pick(&[65_535usize, 65_536, 65_537, 65_544]);
            let p = gen::gen_payload_len(rng, n);
            let at = rng.below(l.segs.len() + 1);
            l.segs.insert(at, crate::scn::Seg::Frame { payload: crate::hexbytes::Hx(p), enc: crate::scn::Enc::Ref, faults: vec![] });
            l.sub = "six-receivers-64k".into();
        }
        l.extra_polls = rng.below(3);
        Scenario::Link(l)
    }

    fn exec(&self, scn: &Scenario, st: &mut Stats) -> Outcome {
        let l = link(scn);
        let built = build_stream(&l.segs);
        count_wire_faults(st, &built);
        let stream = &built.stream;
        let cap = fe::ladder_at_least(stream.len());
        let mut all_obs: Vec<Obs> = Vec::new();
        let mut reference: Option<(String, Normal)> = None;
        let mut violation = None;
        for fe in Fe::ALL6 {
            for buf in [BufKind::Vec, BufKind::Arr(cap)] {
                if fe == Fe::Decode && buf != BufKind::Vec {
                    continue;
                }
                let obs = fe::run_plain(fe, buf, stream, l.extra_polls);
                let label = format!("{} / {:?}", fe.name(), buf);
                match normalise(fe, &obs) {
                    Err(e) => {
                        if violation.is_none() {
                            violation = Some(Violation::oracle("C15.malformed-log", format!("{}: {}; log:{}", label, e, show_hist(&obs))));
                        }
                    }
                    Ok(n) => match &reference {
                        None => reference = Some((label, n)),
                        Some((rl, rn)) => {
                            if *rn != n && violation.is_none() {
                                violation = Some(Violation::oracle(
                                    "C15.replica-disagreement",
                                    format!(
                                        "{} reported {} leftover {:?} but {} reported {} leftover {:?}",
                                        rl,
                                        show_items(&rn.results),
                                        rn.leftover,
                                        label,
                                        show_items(&n.results),
                                        n.leftover
                                    ),
                                ));
                            }
                        }
                    },
                }
                if all_obs.is_empty() {
                    all_obs = obs;
                }
            }
        }
        // a seventh receiver: decode_streaming over an adapter whose size hint is only an upper bound
        if violation.is_none() {
            for buf in [BufKind::Vec, BufKind::Arr(cap)] {
                let obs = fe::drive_streaming_loose_kind(buf, stream, l.extra_polls);
                let label = format!("decode_streaming over a filtered iterator / {:?}", buf);
                match (normalise(Fe::Streaming, &obs), &reference) {
                    (Ok(n), Some((rl, rn))) if *rn != n => {
                        violation = Some(Violation::oracle(
                            "C15.replica-disagreement",
                            format!("{} reported {} leftover {:?} but {} reported {} leftover {:?}", rl, show_items(&rn.results), rn.leftover, label, show_items(&n.results), n.leftover),
                        ));
                    }
                    (Err(e), _) => violation = Some(Violation::oracle("C15.malformed-log", format!("{}: {}", label, e))),
                    _ => {}
                }
                if violation.is_some() {
                    break;
                }
            }
        }
        // an eighth receiver: a push decoder that is not fresh - it served another stream that
        // ended in the middle of something (withheld zeros, half an escape, a cut end sequence)
        // and was finalized; "the push decoder with finalize" is this object as well
        if violation.is_none() {
            const HISTORIES: [&[u8]; 6] = [
                &[0x1b, 0x1b, 0x1b, 0x1b, 0x01, 0x01, 0x01, 0x01, 0x42, 0x00, 0x00, 0x00],
                &[0x1b, 0x1b, 0x1b, 0x1b, 0x01, 0x01, 0x01, 0x01, 0x00, 0x00, 0x00, 0x00, 0x00],
                &[0x1b, 0x1b, 0x1b, 0x1b, 0x01, 0x01, 0x01, 0x01, 0x42, 0x43, 0x00, 0x00, 0x1b, 0x1b, 0x1b, 0x1b, 0x1a, 0x02],
                &[0x1b, 0x1b, 0x1b, 0x1b, 0x01, 0x01, 0x01, 0x01, 0x42, 0x43, 0x44, 0x45, 0x1b, 0x1b, 0x1b],
                &[0x55, 0x1b, 0x1b, 0x1b, 0x1b, 0x01, 0x01],
                &[0x1b, 0x1b, 0x1b, 0x1b, 0x01, 0x01, 0x01, 0x01, 0x42, 0x43, 0x44, 0x45, 0x1b, 0x1b, 0x1b, 0x1b, 0x1b, 0x1b],
            ];
            let hist = HISTORIES[stream.len() % HISTORIES.len()];
            for buf in [BufKind::Vec, BufKind::Arr(cap)] {
                let obs = fe::drive_push_used_kind(buf, hist, stream);
                let label = format!("push decoder reused after finalize / {:?}", buf);
                match (normalise(Fe::Push, &obs), &reference) {
                    (Ok(n), Some((rl, rn))) if *rn != n => {
                        violation = Some(Violation::oracle(
                            "C15.replica-disagreement",
                            format!("{} reported {} leftover {:?} but {} reported {} leftover {:?}", rl, show_items(&rn.results), rn.leftover, label, show_items(&n.results), n.leftover),
                        ));
                    }
                    (Err(e), _) => violation = Some(Violation::oracle("C15.malformed-log", format!("{}: {}", label, e))),
                    _ => {}
                }
                if violation.is_some() {
                    break;
                }
            }
            st.bump("probe", "reused-decoder-receiver");
        }
        // a ninth receiver: SmlReader over an io::Read whose arrival schedule is full of interruptions
        // (`ErrorKind::Interrupted` between bytes, in front of the first and behind the last one): the
        // bytes are the same, and an interruption is not a result
        if violation.is_none() {
            let faults: Vec<(usize, fe::SrcFault)> = (0..=stream.len()).filter(|i| (i * 7 + stream.len()) % 5 < 2).map(|i| (i, fe::SrcFault::Interrupted)).collect();
            for buf in [BufKind::Vec, BufKind::Arr(cap)] {
                let src = fe::SrcState::new(stream, &faults);
                let plan = fe::AppPlan { calls: &[fe::Call::NEXT_BYTES], extra_polls: l.extra_polls, alloc_fail: 0 };
                let obs = fe::run_reader(Fe::RdIo, buf, &src, &plan, true).0;
                let label = format!("SmlReader over an interrupted io::Read / {:?}", buf);
                match (normalise(Fe::RdIo, &obs), &reference) {
                    (Ok(n), Some((rl, rn))) if *rn != n => {
                        violation = Some(Violation::oracle(
                            "C15.replica-disagreement",
                            format!("{} reported {} leftover {:?} but {} reported {} leftover {:?}", rl, show_items(&rn.results), rn.leftover, label, show_items(&n.results), n.leftover),
                        ));
                    }
                    (Err(e), _) => violation = Some(Violation::oracle("C15.malformed-log", format!("{}: {}", label, e))),
                    _ => {}
                }
                if violation.is_some() {
                    break;
                }
            }
            if !faults.is_empty() {
                st.bump("fault.source", "Interrupted");
            }
        }
        let (nontrivial, steps) = match &reference {
            Some((_, n)) => {
                if n.leftover.unwrap_or(0) > 0 {
                    st.bump("probe", "leftover>0");
                }
                if stream.len() > 65_536 {
                    st.bump("probe", "stream>2^16");
                }
                if n.results.len() >= 3 {
                    st.bump("probe", "log>=3");
                }
                (n.results.len() >= 2 || n.leftover.is_some(), (stream.len() * 11) as u64)
            }
            None => (false, 0),
        };
        finish(st, &all_obs, violation, nontrivial, steps)
    }
}
