//! C11 — source faults: would-block is transparent, errors cost only the frame in flight.

use super::e2ecommon::*;
use super::*;
use crate::core::{Outcome, Prop, Stats, Tier, Violation};
use crate::fe::{self, AppPlan, BufKind, Call, CallKind, Fe, SrcFault, SrcState, Target, IO_PALETTE, LADDER};
use crate::gen::{self, StreamMix};
use crate::hexbytes::Hx;
use crate::rng::Rng;
use crate::scn::{build_stream, Enc, LinkScn, Scenario, Seg};
use crate::smlgen;

pub struct C11Prop;
pub static C11: C11Prop = C11Prop;

fn other_name(fe: Fe, k: u8) -> String {
    if fe == Fe::RdEh {
        format!("{:?}", nb::Error::Other(k % 0xE0))
    } else {
        format!("{:?}", std::io::Error::from(IO_PALETTE[k as usize % IO_PALETTE.len()]))
    }
}

/// fault-free sub-run of the same front-end over one segment: (events with absolute positions, n pending at its end)
fn sub_run(fe: Fe, buf: BufKind, seg: &[u8], base: usize) -> Result<(Vec<(usize, Ev)>, usize), String> {
    let ss = SrcState::new(seg, &[]);
    let plan = AppPlan { calls: &[Call::NEXT_BYTES], extra_polls: 0, alloc_fail: 0 };
    let (obs, _) = fe::run_reader(fe, buf, &ss, &plan, true);
    let mut evs = Vec::new();
    let mut n = 0;
    for o in obs {
        match o.item {
            Item::Msg(m) => evs.push((base + o.pos, Ev::Payload(m))),
            Item::Dec(d) => evs.push((base + o.pos, Ev::Dec(d))),
            Item::Io(IoKind::Eof, k) => n = k,
            Item::Io(IoKind::Other(ref s), k) if *s == fe::eh_end_name() => n = k,
            Item::End => {}
            other => return Err(format!("fault-free sub-run produced {}", other.short())),
        }
    }
    Ok((evs, n))
}

/// the expected event queue of a faulty run (DESIGN §6 C11)
fn expected(fe: Fe, buf: BufKind, stream: &[u8], faults: &[(usize, SrcFault)]) -> Result<(Vec<Ev>, Ev), String> {
    // normalise the fault list: positions inside the stream, sorted (stable)
    let mut fl: Vec<(usize, SrcFault)> = faults.iter().filter(|(p, _)| *p <= stream.len()).cloned().collect();
    fl.sort_by_key(|(p, _)| *p);
    if fe == Fe::RdEh {
        fl.retain(|(_, f)| matches!(f, SrcFault::WouldBlock | SrcFault::Other(_)));
    }
    let mut queue: Vec<Ev> = Vec::new();
    let mut seg_start = 0usize;
    let mut i = 0usize;
    // pending would-blocks inside the current segment: (pos, order)
    let mut wbs: Vec<usize> = Vec::new();
    let mut flush_segment = |seg_start: usize, seg_end: usize, wbs: &mut Vec<usize>, queue: &mut Vec<Ev>| -> Result<usize, String> {
        let (evs, n) = sub_run(fe, buf, &stream[seg_start..seg_end], seg_start)?;
        // merge: results at position <= p come before a would-block at p
        let mut wi = 0;
        for (pos, e) in evs {
            while wi < wbs.len() && wbs[wi] < pos {
                queue.push(Ev::Wb);
                wi += 1;
            }
            queue.push(e);
        }
        while wi < wbs.len() {
            queue.push(Ev::Wb);
            wi += 1;
        }
        wbs.clear();
        Ok(n)
    };
    while i < fl.len() {
        let (p, f) = fl[i];
        match f {
            SrcFault::Interrupted => {}
            SrcFault::WouldBlock => wbs.push(p),
            SrcFault::Other(k) => {
                let n = flush_segment(seg_start, p, &mut wbs, &mut queue)?;
                queue.push(Ev::IoOther(other_name(fe, k), n));
                seg_start = p;
            }
            SrcFault::Eof(_) => {
                let n = flush_segment(seg_start, p, &mut wbs, &mut queue)?;
                queue.push(Ev::Eof(n));
                seg_start = p;
            }
        }
        i += 1;
    }
    let n = flush_segment(seg_start, stream.len(), &mut wbs, &mut queue)?;
    let tail = if fe == Fe::RdEh {
        Ev::Wb
    } else {
        if n > 0 {
            queue.push(Ev::Eof(n));
        }
        Ev::Eof(0)
    };
    Ok((queue, tail))
}

fn base_streams() -> Vec<Vec<Seg>> {
    let f = |p: &[u8]| Seg::Frame { payload: Hx(p.to_vec()), enc: Enc::Buf, faults: vec![] };
    vec![
        vec![f(&[0x12, 0x34, 0x56, 0x78])],
        // escapes, zero tail, padding
        vec![f(&[0x01, 0x1b, 0x1b, 0x1b, 0x1b, 0x02, 0x1b, 0x00, 0x00])],
        // noise + two frames
        vec![Seg::Noise(Hx(vec![0x1b, 0x1b, 0x07])), f(&[0xaa, 0x1b]), f(&[])],
    ]
}

fn scn_with(segs: Vec<Seg>, fe: Fe, faults: Vec<(usize, SrcFault)>, kind: CallKind, sub: &str) -> Scenario {
    let mut l = LinkScn::new("C11", sub, fe, BufKind::Arr(16));
    l.segs = segs;
    l.src = faults;
    l.calls = vec![Call { kind, target: Target::Bytes, max_events: None }];
    l.extra_polls = 2;
    Scenario::Link(l)
}

impl Prop for C11Prop {
    fn id(&self) -> &'static str {
        "C11"
    }
    fn level(&self) -> &'static str {
        "fault_enumeration"
    }
    fn runs(&self, tier: Tier) -> u64 {
        match tier {
            Tier::Quick => 120_000,
            Tier::Thorough => 10_000_000,
        }
    }
    fn rule(&self) -> &'static str {
        "directed part (enumeration) on three base streams (one frame; frame with escapes, zero tail and padding; noise + two frames): every inter-byte position x {WouldBlock, Interrupted, Other, transient EOF (Ok(0) and Err(UnexpectedEof))} as a single fault through io::Read with next and read, WouldBlock / Other through the embedded-hal source, and all pairs of positions x {WouldBlock, Other, EOF}^2 through io::Read (thorough: also all triples on the first base stream); seeded part: arbitrary streams (valid, noisy, corrupted) x 1-8 faults at arbitrary positions (also 0 and |s|, several in a row) x read / next / read_nb / next_nb x target DecodedBytes / File x io::Read and embedded-hal sources x buffers. Expected history = fault-free sub-runs of the same front-end per segment + the byte ledger for the counts. Non-trivial = at least one fault fired; distinct = scenario fingerprint"
    }
    fn assumptions(&self) -> Vec<&'static str> {
        vec![
            "end of input inside the stream is modelled as a transient fault (the source reports EOF once and then continues), at the end as sticky",
            "the embedded-hal source has no end of input: after the data it reports would-block forever (sub-runs use a sticky 'line dead' error to learn the pending count)",
            "sealed ByteSource trait: only the sources the crate ships can be driven",
        ]
    }
    fn required_probes(&self, _tier: Tier) -> Vec<&'static str> {
        vec![
            "fault.WouldBlock",
            "fault.Interrupted",
            "fault.Other",
            "fault.Eof",
            "probe.other-with-pending-bytes",
            "probe.eof-with-pending-bytes",
            "probe.wouldblock-inside-frame",
            "probe.fault-at-position-0",
            "probe.fault-at-end",
            "probe.eh-source",
            "probe.nb-call",
            "probe.ledger-checked",
        ]
    }

    fn directed(&self, tier: Tier) -> Vec<Scenario> {
        let mut v = Vec::new();
        for segs in base_streams() {
            let len = build_stream(&segs).stream.len();
            let kinds = [SrcFault::WouldBlock, SrcFault::Interrupted, SrcFault::Other(0), SrcFault::Eof(0), SrcFault::Eof(1)];
            for p in 0..=len {
                for k in kinds {
                    for ck in [CallKind::Next, CallKind::Read] {
                        v.push(scn_with(segs.clone(), Fe::RdIo, vec![(p, k)], ck, "enum-single"));
                    }
                }
                for k in [SrcFault::WouldBlock, SrcFault::Other(3)] {
                    v.push(scn_with(segs.clone(), Fe::RdEh, vec![(p, k)], CallKind::NextNb, "enum-single-eh"));
                }
            }
            let k3 = [SrcFault::WouldBlock, SrcFault::Other(1), SrcFault::Eof(0)];
            let step = if tier == Tier::Quick && len > 40 { 2 } else { 1 };
            for p in (0..=len).step_by(step) {
                for q in (p..=len).step_by(step) {
                    for a in k3 {
                        for b in k3 {
                            v.push(scn_with(segs.clone(), Fe::RdIo, vec![(p, a), (q, b)], CallKind::Next, "enum-pair"));
                        }
                    }
                }
            }
        }
        if tier == Tier::Thorough {
            // all triples of positions x kinds on the first base stream
            let segs = base_streams().remove(0);
            let len = build_stream(&segs).stream.len();
            let k3 = [SrcFault::WouldBlock, SrcFault::Other(2), SrcFault::Eof(1)];
            for p in 0..=len {
                for q in p..=len {
                    for r in q..=len {
                        for a in k3 {
                            for b in k3 {
                                for c in k3 {
                                    v.push(scn_with(segs.clone(), Fe::RdIo, vec![(p, a), (q, b), (r, c)], CallKind::Next, "enum-triple"));
                                }
                            }
                        }
                    }
                }
            }
        }
        v
    }

    fn gen(&self, rng: &mut Rng, tier: Tier) -> Scenario {
        let fe = if rng.chance(1, 3) { Fe::RdEh } else { Fe::RdIo };
        let mut mix = StreamMix::draw(rng, 120);
        mix.max_segs = rng.range(1, 4);
        // most runs should make progress between faults: favour intact frames and noise
        mix.w[0] += 8;
        let mut segs = gen::gen_segs(rng, tier, &mix);
        if rng.chance(1, 4) {
            for s in segs.iter_mut() {
                if let Seg::Frame { payload, .. } = s {
                    *payload = Hx(smlgen::gen_valid(rng, 4).1);
                }
            }
        }
        let long = rng.chance(1, 150);
        if long {
            // more than 2^16 unreported bytes before a fault: counts must not be 16-bit quantities
            let n = rng.range(65_530, 65_545);
            let mut g = rng.bytes(n);
            for b in g.iter_mut() {
                if *b == 0x01 {
                    *b = 0x02;
                }
            }
            segs.insert(0, Seg::Noise(Hx(g)));
        }
        let len = build_stream(&segs).stream.len();
        let kinds: &[SrcFault] = if fe == Fe::RdEh {
            &[SrcFault::WouldBlock, SrcFault::WouldBlock, SrcFault::Other(0)]
        } else {
            &[SrcFault::WouldBlock, SrcFault::WouldBlock, SrcFault::Interrupted, SrcFault::Other(0), SrcFault::Eof(0)]
        };
        let nf = rng.range(1, 8);
        let mut faults = gen::gen_src_faults(rng, len, nf, kinds);
        let marks = gen::marks_of(&segs);
        gen::bias_src(rng, &mut faults, &marks);
        if long {
            // one hard fault right behind the long run
            let base = 65_536.min(len);
            let at = base + rng.below(len - base + 1);
            faults.push((at.min(len), if fe == Fe::RdEh || rng.chance(1, 2) { SrcFault::Other(1) } else { SrcFault::Eof(0) }));
            faults.sort_by_key(|(p, _)| *p);
        }
        let mut l = LinkScn::new("C11", "seeded", fe, BufKind::Vec);
        l.segs = segs;
        l.src = faults;
        l.buf = match rng.below(4) {
            0 => BufKind::Default,
            1 => BufKind::Vec,
            2 => BufKind::Arr(*rng.pick(&LADDER[..41])),
            _ => BufKind::Arr(512),
        };
        let base = *rng.pick(&[CallKind::Next, CallKind::Read, CallKind::NextNb, CallKind::ReadNb]);
        let n = rng.range(1, 3);
        l.calls = (0..n)
            .map(|_| Call {
                kind: if rng.chance(1, 4) { *rng.pick(&[CallKind::Next, CallKind::Read, CallKind::NextNb, CallKind::ReadNb]) } else { base },
                target: if rng.chance(1, 4) { Target::File } else { Target::Bytes },
                max_events: None,
            })
            .collect();
        l.extra_polls = *rng.pick(&[0usize, 1, 2, 5, 64]);
        Scenario::Link(l)
    }

    fn exec(&self, scn: &Scenario, st: &mut Stats) -> Outcome {
        let l = link(scn);
        if !matches!(l.fe, Fe::RdIo | Fe::RdEh) || l.calls.is_empty() || l.calls.iter().any(|c| c.target == Target::Parser) {
            return Outcome::default();
        }
        let built = build_stream(&l.segs);
        let stream = &built.stream;
        let mut src = l.src.clone();
        src.sort_by_key(|(p, _)| *p);
        let ss = SrcState::new(stream, &src);
        let plan = AppPlan { calls: &l.calls, extra_polls: l.extra_polls, alloc_fail: 0 };
        let (obs, made) = fe::run_reader(l.fe, l.buf, &ss, &plan, false);
        for (p, f) in src.iter().take(ss.fidx.get()) {
            if l.fe == Fe::RdEh && !matches!(f, SrcFault::WouldBlock | SrcFault::Other(_)) {
                continue;
            }
            st.bump("fault", f.name());
            if *p == 0 {
                st.bump("probe", "fault-at-position-0");
            }
            if *p == stream.len() {
                st.bump("probe", "fault-at-end");
            }
        }
        if l.fe == Fe::RdEh {
            st.bump("probe", "eh-source");
        }
        if made.iter().any(|c| matches!(c.kind, CallKind::NextNb | CallKind::ReadNb)) {
            st.bump("probe", "nb-call");
        }
        let mut violation = None;
        match expected(l.fe, l.buf, stream, &src) {
            Err(e) => panic!("HARNESS: C11 sub-run: {}", e),
            Ok((queue, tail)) => {
                for e in &queue {
                    match e {
                        Ev::IoOther(_, n) if *n > 0 => st.bump("probe", "other-with-pending-bytes"),
                        Ev::Eof(n) if *n > 0 => st.bump("probe", "eof-with-pending-bytes"),
                        _ => {}
                    }
                }
                let mut skipped = 0;
                if let Err(d) = compare(&obs, &made, &queue, &tail, false, &mut skipped) {
                    violation = Some(Violation::oracle(
                        "C11.history",
                        format!(
                            "{} buffer {:?}, faults {:?}: {}; log:{}",
                            l.fe.name(),
                            l.buf,
                            &src[..src.len().min(8)],
                            d,
                            show_hist(&obs)
                        ),
                    ));
                }
            }
        }
        // would-block while a frame is in flight?
        let mut boundary = 0;
        for o in &obs {
            match &o.item {
                Item::Io(IoKind::WouldBlock, _) | Item::NbWouldBlock => {
                    if o.pos > boundary && o.pos < stream.len() {
                        st.bump("probe", "wouldblock-inside-frame");
                    }
                }
                Item::Msg(_) | Item::Io(..) => boundary = o.pos,
                Item::Dec(d) if d.is_rejecting() => boundary = o.pos,
                _ => {}
            }
        }
        // independent pin of the counts: the byte ledger (DecodedBytes target only)
        if stream.len() > 65_536 {
            st.bump("probe", "stream>2^16");
        }
        if violation.is_none() && made.iter().all(|c| c.target == Target::Bytes) {
            st.bump("probe", "ledger-checked");
            if let Err((clause, d)) = ledger(stream, &obs, l.fe != Fe::RdEh) {
                violation = Some(Violation::oracle(
                    &format!("C11.{}", clause),
                    format!("{} buffer {:?}, faults {:?}: {}; log:{}", l.fe.name(), l.buf, &src[..src.len().min(8)], d, show_hist(&obs)),
                ));
            }
        }
        finish(st, &obs, violation, ss.fired.get() > 0, (stream.len() + ss.calls.get() + obs.len()) as u64)
    }
}
