//! C17 — conservation of bytes (ledger oracle).

use super::*;
use crate::core::{Outcome, Prop, Stats, Tier, Violation};
use crate::fe::{self, AppPlan, BufKind, Call, CallKind, Fe, PushOp, SrcFault, SrcState, Target, LADDER};
use crate::gen::{self, StreamMix};
use crate::hexbytes::Hx;
use crate::rng::Rng;
use crate::scn::{build_stream, Enc, LinkScn, Scenario, Seg};

pub struct C17Prop;
pub static C17: C17Prop = C17Prop;

impl Prop for C17Prop {
    fn id(&self) -> &'static str {
        "C17"
    }
    fn runs(&self, tier: Tier) -> u64 {
        match tier {
            Tier::Quick => 200_000,
            Tier::Thorough => 15_000_000,
        }
    }
    fn rule(&self) -> &'static str {
        "arbitrary stream (frames intact / faulty, noise, junk, cut-off and Byzantine frames; 3 % of the runs with a noise run or payload of 255..257 / 65534..65537 / 70000 bytes, thorough up to 300000) through a front-end whose read position the harness owns: push decoder with reset()/finalize() at random positions, decode_streaming, SmlReader over iterator / io::Read / embedded-hal with WouldBlock / Interrupted / Other / transient-EOF faults, called via read / next / read_nb / next_nb. The byte ledger must tile the stream. Non-trivial = at least two ledger entries; distinct = scenario fingerprint"
    }
    fn assumptions(&self) -> Vec<&'static str> {
        vec![
            "positions are the harness's own count of bytes handed over; front-ends that hide the position (decode, reader over slice) are not used here",
            "the embedded-hal source never ends, so its last pending bytes are never reported: counts are checked, tiling is not required there",
        ]
    }
    fn required_probes(&self, _tier: Tier) -> Vec<&'static str> {
        vec![
            "probe.entry.delivered",
            "probe.entry.discarded-start",
            "probe.entry.discarded-final",
            "probe.entry.rejected",
            "probe.entry.reset",
            "probe.entry.ioerr-other",
            "probe.entry.ioerr-eof",
            "probe.long>=65536",
        ]
    }

    fn directed(&self, _tier: Tier) -> Vec<Scenario> {
        let mut v = Vec::new();
        for n in [255usize, 256, 257, 65_534, 65_535, 65_536, 65_537] {
            for fill in [0x00u8, 0x1b, 0x42] {
                for fe in [Fe::Push, Fe::Streaming, Fe::RdIter, Fe::RdIo] {
                    for with_frame in [true, false] {
                        let mut l = LinkScn::new("C17", "directed-long-noise", fe, BufKind::Arr(16));
                        l.segs.push(Seg::Noise(Hx(vec![fill; n])));
                        if with_frame {
                            l.segs.push(Seg::Frame { payload: Hx(vec![9, 8, 7]), enc: Enc::Buf, faults: vec![] });
                        }
                        v.push(Scenario::Link(l));
                    }
                }
            }
        }
        v
    }

    fn gen(&self, rng: &mut Rng, tier: Tier) -> Scenario {
        let fe = *rng.pick(&[Fe::Push, Fe::Push, Fe::Streaming, Fe::RdIter, Fe::RdIo, Fe::RdIo, Fe::RdEh]);
        let buf = match rng.below(4) {
            0 => BufKind::Vec,
            1 if fe.is_reader() => BufKind::Default,
            2 => BufKind::Arr(*rng.pick(&LADDER[..41])),
            _ => BufKind::Arr(*rng.pick(&[512usize, 4096])),
        };
        let mut l = LinkScn::new("C17", "ledger", fe, buf);
        let mix = StreamMix::draw(rng, 300);
        l.segs = gen::gen_segs(rng, tier, &mix);
        if rng.chance(3, 100) {
            let lens: &[usize] = if tier == Tier::Thorough {
                &[255, 256, 257, 65_534, 65_535, 65_536, 65_537, 70_000, 131_075, 300_000]
            } else {
                &[255, 256, 257, 65_534, 65_535, 65_536, 65_537, 70_000]
            };
            let n = *rng.pick(lens);
            let seg = match rng.below(3) {
                0 => Seg::Raw(Hx(vec![*rng.pick(&[0u8, 0x1b, 0x01]); n])),
                1 => {
                    let mut g = rng.bytes(n);
                    for b in g.iter_mut() {
                        if *b == 0x01 {
                            *b = 0x03;
                        }
                    }
                    Seg::Noise(Hx(g))
                }
                _ => Seg::Frame { payload: Hx(vec![0x5a; n]), enc: Enc::Ref, faults: vec![] },
            };
            let at = rng.below(l.segs.len() + 1);
            l.segs.insert(at, seg);
            l.sub = "ledger-long".into();
        }
        let len = build_stream(&l.segs).stream.len();
        match fe {
            Fe::Push => {
                l.ops = { let k = rng.below(4); let marks = gen::marks_of(&l.segs); gen::gen_push_ops_biased(rng, len, k, &marks) };
                if buf == BufKind::Vec && rng.chance(1, 3) {
                    // memory pressure: a failed reservation rejects the frame in flight, and the
                    // rejected range must still be accounted for
                    l.alloc_fail = rng.range(1, 12) as u64;
                }
            }
            Fe::RdIo => {
                l.src = gen::gen_src_faults_upto(rng, len, 5,
                    &[SrcFault::WouldBlock, SrcFault::Interrupted, SrcFault::Other(0), SrcFault::Other(0), SrcFault::Eof(0)],
                );
            }
            Fe::RdEh => {
                l.src = gen::gen_src_faults_upto(rng, len, 5, &[SrcFault::WouldBlock, SrcFault::Other(0)]);
            }
            _ => {}
        }
        if !l.src.is_empty() {
            let marks = gen::marks_of(&l.segs);
            gen::bias_src(rng, &mut l.src, &marks);
        }
        if fe.is_reader() {
            let k = *rng.pick(&[CallKind::Next, CallKind::Next, CallKind::Read, CallKind::NextNb, CallKind::ReadNb]);
            l.calls = vec![Call { kind: k, target: Target::Bytes, max_events: None }];
        }
        l.extra_polls = rng.below(3);
        Scenario::Link(l)
    }

    fn exec(&self, scn: &Scenario, st: &mut Stats) -> Outcome {
        let l = link(scn);
        if !l.fe.has_pos() {
            return Outcome::default();
        }
        let built = build_stream(&l.segs);
        count_wire_faults(st, &built);
        let stream = &built.stream;
        if stream.len() >= 65_536 {
            st.bump("probe", "long>=65536");
        }
        st.bump("cfg.fe", l.fe.name());
        let (obs, tiling) = match l.fe {
            Fe::Push => {
                let ops: Vec<(usize, PushOp)> = l.ops.iter().filter(|(_, o)| !matches!(o, PushOp::Probe(_))).cloned().collect();
                (fe::drive_push_kind(l.buf, stream, &ops, l.alloc_fail, true), true)
            }
            Fe::Streaming => (mark_final(&fe::drive_streaming_kind(l.buf, stream, l.extra_polls)), true),
            _ => {
                let ss = SrcState::new(stream, &l.src);
                let calls: Vec<Call> = l.calls.iter().map(|c| Call { target: Target::Bytes, ..*c }).collect();
                let plan = AppPlan { calls: &calls, extra_polls: l.extra_polls, alloc_fail: 0 };
                let (o, _) = fe::run_reader(l.fe, l.buf, &ss, &plan, false);
                st.add("fault", "src.fired", ss.fired.get() as u64);
                for (_, f) in l.src.iter().take(ss.fidx.get()) {
                    st.bump("fault", f.name());
                }
                (o, l.fe != Fe::RdEh)
            }
        };
        let mut entries = 0;
        for o in &obs {
            match &o.item {
                Item::Msg(_) => {
                    entries += 1;
                    st.bump("probe", "entry.delivered")
                }
                Item::Dec(DErr::Discarded(_)) => {
                    entries += 1;
                    st.bump("probe", "entry.discarded-start")
                }
                Item::Fin(_) => {
                    entries += 1;
                    st.bump("probe", "entry.discarded-final")
                }
                Item::Dec(_) => {
                    entries += 1;
                    st.bump("probe", "entry.rejected")
                }
                Item::Reset(n) if *n > 0 => {
                    entries += 1;
                    st.bump("probe", "entry.reset")
                }
                Item::Io(IoKind::Other(_), _) => {
                    entries += 1;
                    st.bump("probe", "entry.ioerr-other")
                }
                Item::Io(IoKind::Eof, n) if *n > 0 => {
                    entries += 1;
                    st.bump("probe", "entry.ioerr-eof")
                }
                _ => {}
            }
        }
        let violation = match ledger(stream, &obs, tiling) {
            Ok(()) => None,
            Err((clause, d)) => Some(Violation::oracle(
                &format!("C17.{}", clause),
                format!("{} buffer {:?}: {}; log:{}", l.fe.name(), l.buf, d, show_hist(&obs)),
            )),
        };
        finish(st, &obs, violation, entries >= 2, (stream.len() + obs.len() + l.src.len() + l.ops.len()) as u64)
    }
}
