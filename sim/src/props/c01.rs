//! C01 — transport round trip = exactly-once delivery over a perfect link.

use super::*;
use crate::core::{Outcome, Prop, Stats, Tier, Violation};
use crate::fe::{self, AppPlan, BufKind, Call, Fe, SrcFault, SrcState};
use crate::gen;
use crate::hexbytes::Hx;
use crate::rng::Rng;
use crate::scn::{build_stream, Enc, LinkScn, Scenario, Seg};

pub struct C01Prop;
pub static C01: C01Prop = C01Prop;

fn scn_for(payload: Vec<u8>, enc: Enc, fe: Fe, buf: BufKind, sub: &str) -> LinkScn {
    let mut l = LinkScn::new("C01", sub, fe, buf);
    l.segs.push(Seg::Frame {
        payload: Hx(payload),
        enc,
        faults: vec![],
    });
    l
}

impl Prop for C01Prop {
    fn id(&self) -> &'static str {
        "C01"
    }

    fn runs(&self, tier: Tier) -> u64 {
        match tier {
            Tier::Quick => 150_000,
            Tier::Thorough => 12_000_000,
        }
    }

    fn rule(&self) -> &'static str {
        "one payload (token grammar: random bytes, 1b runs, zero runs, start / end look-alikes; length classes incl. 252..260, 1020..1028, 8188..8194; forced tails of 0-9 (rarely 250..260, 505..515, 1020..1275, 65535..65540) zeros x 1b; payloads whose frame checksum is 0000 / ffff / 1b1b / ...; push decoders built with from_buf over a dirty buffer for a third of the streams) framed by a real encoder (buffer or iterator), perfect link, one of the six front-ends x {Vec, ArrayBuf<N>=|p| or larger, default 8 KiB}; sub-configuration B adds WouldBlock/Interrupted arrivals on io::Read. Non-trivial = the frame was delivered; distinct = distinct scenario fingerprint (payload, encoder, front-end, buffer, arrival schedule)"
    }

    fn assumptions(&self) -> Vec<&'static str> {
        vec![
            "position check (bytes pulled == frame length at delivery) only for front-ends whose source the harness owns (push, decode_streaming, reader over iterator / io::Read)",
            "would-block surfacings are removed before comparison (transparency is C11's claim)",
        ]
    }

    fn directed(&self, tier: Tier) -> Vec<Scenario> {
        // all (tail 1b run 0-9) x (tail zeros 0-5) x (len mod 4) x (escape immediately before the tail y/n)
        let mut v = Vec::new();
        let fes = [Fe::Push, Fe::Streaming, Fe::RdIter, Fe::Decode, Fe::RdIo, Fe::RdSlice];
        let mut k = 0usize;
        for ones in 0..10usize {
            for zeros in 0..6usize {
                for m in 0..4usize {
                    for esc in [false, true] {
                        for order in [false, true] {
                            let mut p: Vec<u8> = Vec::new();
                            // body so that total length mod 4 == m
                            let tail = ones + zeros + if esc { 4 } else { 0 };
                            let mut body = 5usize;
                            while (body + tail) % 4 != m {
                                body += 1;
                            }
                            for i in 0..body {
                                p.push(0x30 + (i as u8 % 16));
                            }
                            if esc {
                                p.extend_from_slice(&[0x1b; 4]);
                                if ones > 0 {
                                    // separate the escape from the tail run, else it is one longer run
                                    // (both are wanted: order decides)
                                    if order {
                                        p.push(0x77);
                                        p.remove(0);
                                    }
                                }
                            }
                            if order {
                                p.extend(std::iter::repeat(0x1b).take(ones));
                                p.extend(std::iter::repeat(0x00).take(zeros));
                            } else {
                                p.extend(std::iter::repeat(0x00).take(zeros));
                                p.extend(std::iter::repeat(0x1b).take(ones));
                            }
                            let fe = fes[k % fes.len()];
                            let enc = if k % 2 == 0 { Enc::Buf } else { Enc::Iter };
                            let buf = match (fe, k % 3) {
                                (Fe::Decode, _) => BufKind::Vec,
                                (_, 0) => BufKind::Vec,
                                (_, 1) => BufKind::Arr(fe::ladder_at_least(p.len())),
                                _ => {
                                    if fe.is_reader() {
                                        BufKind::Default
                                    } else {
                                        BufKind::Arr(64)
                                    }
                                }
                            };
                            v.push(Scenario::Link(scn_for(p, enc, fe, buf, "directed-tail")));
                            k += 1;
                        }
                    }
                }
            }
        }
        // small scope: every payload over {00, 1b, 01, 1a, 55} up to length 4 (thorough: 6)
        let maxlen = if tier == Tier::Thorough { 6 } else { 5 };
        for (i, p) in gen::all_strings(&[0x00, 0x1b, 0x01, 0x1a, 0x55], maxlen).into_iter().enumerate() {
            let fe = fes[i % fes.len()];
            let enc = if (i / fes.len()) % 2 == 0 { Enc::Buf } else { Enc::Iter };
            let buf = if fe == Fe::Decode || i % 3 == 0 { BufKind::Vec } else { BufKind::Arr(fe::ladder_at_least(p.len())) };
            v.push(Scenario::Link(scn_for(p, enc, fe, buf, "directed-small-scope")));
        }
        // checksum sweep: two payload bytes run through all values, so that the frame's CRC bytes
        // take (nearly) every value - in particular 1b, 1a, 01 and 00 - for every tail shape
        let bs: usize = if tier == Tier::Thorough { 256 } else { 48 };
        for tail in 0..4usize {
            for lenmod in 0..4usize {
                for a in 0..256usize {
                    for b in 0..bs {
                        if (a + b + tail + lenmod) % 4 != 0 && tier == Tier::Quick {
                            continue;
                        }
                        let mut p = vec![a as u8, (b * 5 + 3) as u8];
                        while (p.len() + tail) % 4 != lenmod {
                            p.push(0x42);
                        }
                        p.extend(std::iter::repeat(0x1b).take(tail));
                        let fe = fes[(a + b) % fes.len()];
                        v.push(Scenario::Link(scn_for(p, Enc::Ref, fe, BufKind::Vec, "directed-crc-sweep")));
                    }
                }
            }
        }
        // lengths around the 8-bit pad counter wrap through the iterator encoder
        let lens: Vec<usize> = (252..=260).chain(1020..=1028).chain(if tier == Tier::Thorough { 65532..=65540 } else { 0..=0 }).collect();
        for n in lens {
            for fill in [0x55u8, 0x00, 0x1b] {
                for fe in [Fe::Push, Fe::RdIter] {
                    let p = vec![fill; n];
                    v.push(Scenario::Link(scn_for(p, Enc::Iter, fe, BufKind::Vec, "directed-len")));
                }
            }
        }
        v
    }

    fn gen(&self, rng: &mut Rng, tier: Tier) -> Scenario {
        let fe = gen::gen_fe6(rng);
        let max = if rng.chance(1, 50) { 70_000 } else { 9000 };
        let mut p = gen::gen_payload(rng, tier, max);
        if max == 70_000 && rng.chance(1, 2) {
            let n = if rng.chance(1, 2) { rng.range(65_490, 65_560) } else { *rng.pick(&[65_534usize, 65_535, 65_536, 65_537, 69_999]) };
            p = gen::gen_payload_len(rng, n);
        }
        let enc = gen::gen_enc(rng);
        let buf = gen::gen_buf_fitting(rng, fe, p.len());
        let sub_b = fe == Fe::RdIo && rng.chance(1, 2);
        let mut l = scn_for(p.clone(), enc, fe, buf, if sub_b { "B-arrivals" } else { "A-perfect" });
        if sub_b {
            let flen = crate::refenc::refenc(&p).len();
            let n = rng.range(1, 6);
            l.src = gen::gen_src_faults(rng, flen, n, &[SrcFault::WouldBlock, SrcFault::Interrupted]);
        }
        l.extra_polls = rng.below(4);
        Scenario::Link(l)
    }

    fn exec(&self, scn: &Scenario, st: &mut Stats) -> Outcome {
        // C01 is about the encoders: a panicking encoder is its violation
        struct Strict;
        impl Drop for Strict {
            fn drop(&mut self) {
                crate::scn::STRICT_ENCODER.with(|c| c.set(false));
            }
        }
        crate::scn::STRICT_ENCODER.with(|c| c.set(true));
        let _guard = Strict; // also reset when the run unwinds
        self.exec_inner(scn, st)
    }
}

impl C01Prop {
    fn exec_inner(&self, scn: &Scenario, st: &mut Stats) -> Outcome {
        let l = link(scn);
        let built = build_stream(&l.segs);
        let payload = match &l.segs[..] {
            [Seg::Frame { payload, faults, .. }] if faults.is_empty() => payload.0.clone(),
            _ => {
                // minimiser may have produced something outside the property's domain
                return Outcome::default();
            }
        };
        let stream = &built.stream;
        st.bump("cfg.fe", l.fe.name());
        let obs = if l.fe.is_reader() {
            let ss = SrcState::new(stream, &l.src);
            let plan = AppPlan {
                calls: &[Call::NEXT_BYTES],
                extra_polls: l.extra_polls,
                alloc_fail: 0,
            };
            let (o, _) = fe::run_reader(l.fe, l.buf, &ss, &plan, true);
            st.add("fault", "src.fired", ss.fired.get() as u64);
            o
        } else {
            fe::run_plain(l.fe, l.buf, stream, l.extra_polls)
        };
        let n_wb = obs.len();
        let obs_s = strip_would_block(&obs);
        st.add("fault", "src.wouldblock-surfaced", (n_wb - obs_s.len()) as u64);
        let mut expected = vec![Item::Msg(payload.clone())];
        expected.extend(terminal_clean(l.fe, l.extra_polls));
        let got = items(&obs_s);
        let mut violation = None;
        if got != expected {
            violation = Some(Violation::oracle(
                "C01.exactly-once",
                format!(
                    "front-end {} buffer {:?} encoder {:?}: payload of {} bytes; expected {} got {}",
                    l.fe.name(),
                    l.buf,
                    match &l.segs[0] {
                        Seg::Frame { enc, .. } => *enc,
                        _ => Enc::Ref,
                    },
                    payload.len(),
                    show_items(&expected),
                    show_items(&got)
                ),
            ));
        } else if l.fe.has_pos() {
            // delivered exactly when the frame's last byte is consumed
            let at = obs_s[0].pos;
            if at != stream.len() {
                violation = Some(Violation::oracle(
                    "C01.delivery-instant",
                    format!("payload reported after {} bytes were pulled; the frame has {}", at, stream.len()),
                ));
            }
        }
        let delivered = got.first() == Some(&Item::Msg(payload.clone()));
        if payload.len() >= 256 {
            st.bump("probe", "payload>=256");
        }
        if payload.len() >= 65536 {
            st.bump("probe", "payload>=65536");
        }
        finish(st, &obs, violation, delivered, (stream.len() + obs.len()) as u64)
    }
}
