//! C10 — end to end through SmlReader.

use super::e2ecommon::*;
use super::*;
use crate::core::{Outcome, Prop, Stats, Tier, Violation};
use crate::fe::{self, AppPlan, BufKind, Call, CallKind, Fe, SrcState, Target, LADDER};
use crate::gen::{self, StreamMix};
use crate::hexbytes::Hx;
use crate::refenc::noise_ok;
use crate::rng::Rng;
use crate::scn::{build_stream, LinkScn, Scenario, Seg};
use crate::smlgen;
use crate::smlref::ref_read;

pub struct C10Prop;
pub static C10: C10Prop = C10Prop;

fn gen_calls(rng: &mut Rng) -> Vec<Call> {
    let n = rng.range(1, 5);
    let base = *rng.pick(&[CallKind::Next, CallKind::Next, CallKind::Read, CallKind::NextNb, CallKind::ReadNb]);
    (0..n)
        .map(|_| Call {
            kind: if rng.chance(1, 3) { *rng.pick(&[CallKind::Next, CallKind::Read, CallKind::NextNb, CallKind::ReadNb]) } else { base },
            target: *rng.pick(&[Target::Bytes, Target::File, Target::Parser]),
            max_events: if rng.chance(1, 8) { Some(rng.below(5) as u16) } else { None },
        })
        .collect()
}

impl Prop for C10Prop {
    fn id(&self) -> &'static str {
        "C10"
    }
    fn runs(&self, tier: Tier) -> u64 {
        match tier {
            Tier::Quick => 120_000,
            Tier::Thorough => 10_000_000,
        }
    }
    fn rule(&self) -> &'static str {
        "sub-configuration clean: 1-6 SML files (abstract model under a firmware profile, or real meter transmissions) each framed by a real encoder, separated / followed by noise satisfying the C08 side condition; source in {slice, iterator, io::Read}, buffer in {default 8 KiB, ArrayBuf<N>, Vec}; the application draws read / next / read_nb / next_nb and the target type (DecodedBytes, File, Parser, sometimes abandoning the parser) per call and keeps polling after the end; oracle 1 = the transmitted files as read by the reference reader, noise only as counts, end of input exactly when all bytes are consumed. sub-configuration clean-small-buffer (a fifth of the clean runs): the static buffer is smaller than the longest file - the files that fit must still be yielded, in order, unaltered, and nothing else. sub-configuration faulty: arbitrary streams (link faults, junk, cuts, Byzantine frames), oracle 2 = hand composition Decoder + parser. Non-trivial = at least two files or noise present (clean) / at least one fault (faulty); distinct = scenario fingerprint"
    }
    fn assumptions(&self) -> Vec<&'static str> {
        vec![
            "oracle 1 expects files as the reference SML reader reads the generated wire bytes (self-checked against the abstract model at generation time)",
            "for calls that abandon their Parser mid-iteration only the kind of item is checked; the following calls are checked in full",
            "oracle 2 is metamorphic",
        ]
    }
    fn required_probes(&self, _tier: Tier) -> Vec<&'static str> {
        vec!["probe.clean.files>=3", "probe.clean.trailing-noise", "probe.target.File", "probe.target.Parser", "probe.abandoned-parser", "probe.faulty.parse-error", "probe.kind.Read", "probe.small-buffer.file-lost", "probe.small-buffer.file-kept"]
    }

    fn gen(&self, rng: &mut Rng, tier: Tier) -> Scenario {
        let fe = *rng.pick(&[Fe::RdSlice, Fe::RdIter, Fe::RdIo]);
        let clean = rng.chance(2, 3);
        let mut l = LinkScn::new("C10", if clean { "clean" } else { "faulty" }, fe, BufKind::Vec);
        let mut need = 0usize;
        if clean {
            let k = rng.range(1, 6);
            for i in 0..k {
                let (c, g) = gen::gen_noise(rng, 200);
                let _ = c;
                if i > 0 || rng.chance(1, 2) {
                    if !g.is_empty() {
                        l.segs.push(Seg::Noise(Hx(g)));
                    }
                }
                let bytes = if !smlgen::corpus().is_empty() && rng.chance(1, 6) {
                    let c = smlgen::corpus();
                    let f = &c[rng.below(c.len())];
                    let mut v = Vec::new();
                    for b in f {
                        v.extend_from_slice(&crate::scn::seal_msg(&crate::scn::MsgScn { body: Hx(b.clone()), seal: crate::scn::Seal::Good }));
                    }
                    v
                } else {
                    smlgen::gen_valid(rng, 12).1
                };
                need = need.max(bytes.len());
                l.segs.push(Seg::Frame { payload: Hx(bytes), enc: gen::gen_enc(rng), faults: vec![] });
            }
            if rng.chance(1, 3) {
                let (_, g) = gen::gen_noise(rng, 60);
                if !g.is_empty() {
                    l.segs.push(Seg::Noise(Hx(g)));
                }
            }
        } else {
            let mut mix = StreamMix::draw(rng, 200);
            mix.max_segs = rng.range(1, 5);
            l.segs = gen::gen_segs(rng, tier, &mix);
            // some payloads should be real SML so that the File / Parser targets see both outcomes
            for s in l.segs.iter_mut() {
                if let Seg::Frame { payload, .. } = s {
                    if rng.chance(1, 2) {
                        let b = if rng.chance(2, 3) { smlgen::gen_valid(rng, 6).1 } else { smlgen::gen_file_scn(rng, tier, "C10", &smlgen::Emphasis::balanced()).bytes() };
                        *payload = Hx(b);
                    }
                    need = need.max(payload.len());
                }
            }
        }
        l.buf = match rng.below(4) {
            0 => BufKind::Default,
            1 => BufKind::Vec,
            2 if !clean => BufKind::Arr(*rng.pick(&LADDER[..48])),
            _ => BufKind::Arr(fe::ladder_at_least(need)),
        };
        if l.buf == BufKind::Default && need > 8192 {
            l.buf = BufKind::Vec;
        }
        if clean && need > 1 && rng.chance(1, 5) {
            // a static buffer that is too small for at least the longest file: that file cannot be
            // yielded, every file that fits still has to be (the overflow costs one transmission)
            let below: Vec<usize> = LADDER.iter().copied().filter(|c| *c < need).collect();
            let hi = below.len();
            let lo = hi.saturating_sub(6);
            l.buf = BufKind::Arr(below[rng.range(lo, hi - 1)]);
            l.sub = "clean-small-buffer".into();
        }
        l.calls = gen_calls(rng);
        l.extra_polls = *rng.pick(&[0usize, 1, 2, 5]);
        if fe == Fe::RdIo && rng.chance(1, 3) {
            // an arrival schedule with interrupted system calls: invisible by io::Read's contract
            let len = build_stream(&l.segs).stream.len();
            let k = rng.range(1, 4);
            l.src = gen::gen_src_faults(rng, len, k, &[crate::fe::SrcFault::Interrupted]);
        }
        Scenario::Link(l)
    }

    fn exec(&self, scn: &Scenario, st: &mut Stats) -> Outcome {
        let l = link(scn);
        if !matches!(l.fe, Fe::RdSlice | Fe::RdIter | Fe::RdIo) || l.calls.is_empty() {
            return Outcome::default();
        }
        let built = build_stream(&l.segs);
        count_wire_faults(st, &built);
        let stream = &built.stream;
        st.bump("cfg.fe", l.fe.name());
        // only interruptions are part of this property's arrival schedules (everything else is C11)
        let src: Vec<(usize, crate::fe::SrcFault)> = if l.fe == Fe::RdIo {
            l.src.iter().filter(|(_, f)| matches!(f, crate::fe::SrcFault::Interrupted)).cloned().collect()
        } else {
            Vec::new()
        };
        if !src.is_empty() {
            st.bump("probe", "interrupted-arrivals");
        }
        let ss = SrcState::new(stream, &src);
        let plan = AppPlan { calls: &l.calls, extra_polls: l.extra_polls, alloc_fail: 0 };
        let (obs, made) = fe::run_reader(l.fe, l.buf, &ss, &plan, true);
        for c in &made {
            match c.target {
                Target::File => st.bump("probe", "target.File"),
                Target::Parser => {
                    st.bump("probe", "target.Parser");
                    if c.max_events.is_some() {
                        st.bump("probe", "abandoned-parser");
                    }
                }
                _ => {}
            }
            if c.kind == CallKind::Read {
                st.bump("probe", "kind.Read");
            }
        }
        let mut violation = None;

        // is this run inside oracle 1's domain?  Noise* (Frame Noise*)* with valid files and enough buffer
        let mut clean = l.sub == "clean";
        let mut queue1: Vec<Ev> = Vec::new();
        let mut ends: Vec<usize> = Vec::new(); // stream offset at which each expected event completes
        let mut pending_noise = 0usize;
        let mut nfiles = 0;
        if clean {
            for (s, info) in l.segs.iter().zip(built.segs.iter()) {
                match s {
                    Seg::Noise(g) => pending_noise += g.len(),
                    Seg::Frame { payload, faults, .. } if faults.is_empty() && ref_read(payload).is_ok() => {
                        let fits = match l.buf {
                            BufKind::Arr(n) => payload.len() <= n,
                            BufKind::Default => payload.len() <= 8192,
                            BufKind::Vec => true,
                        };
                        if !fits {
                            clean = false;
                            break;
                        }
                        if pending_noise > 0 {
                            queue1.push(Ev::Dec(DErr::Discarded(pending_noise)));
                            ends.push(info.start + 8);
                            pending_noise = 0;
                        }
                        queue1.push(Ev::Payload(payload.0.clone()));
                        ends.push(info.end);
                        nfiles += 1;
                    }
                    _ => {
                        clean = false;
                        break;
                    }
                }
            }
            // the noise between two frames must satisfy the side condition as a whole
            let mut g: Vec<u8> = Vec::new();
            for s in &l.segs {
                match s {
                    Seg::Noise(x) => g.extend_from_slice(x),
                    _ => {
                        if !noise_ok(&g) {
                            clean = false;
                        }
                        g.clear();
                    }
                }
            }
            // trailing noise is reported by count whatever it contains, but a start sequence inside it
            // would legitimately be reported separately
            if !g.is_empty() && !crate::refenc::start_positions(&g).is_empty() {
                clean = false;
            }
        }
        if clean {
            if nfiles >= 3 {
                st.bump("probe", "clean.files>=3");
            }
            if pending_noise > 0 {
                st.bump("probe", "clean.trailing-noise");
                queue1.push(Ev::Eof(pending_noise));
                ends.push(stream.len());
            }
            let mut skipped = 0;
            if let Err(d) = compare(&obs, &made, &queue1, &Ev::Eof(0), true, &mut skipped) {
                violation = Some(Violation::oracle(
                    "C10.transmitted-files",
                    format!("{} buffer {:?}: {}; log:{}", l.fe.name(), l.buf, d, show_hist(&obs)),
                ));
            } else if l.fe.has_pos() {
                // each result is reported exactly when its last byte has been pulled; end of input
                // exactly when all bytes are consumed
                for (k, o) in obs.iter().enumerate() {
                    let want = if k < ends.len() { ends[k] } else { stream.len() };
                    // the property fixes when a file is handed over (its frame is complete) and when the
                    // end of input is signalled (all bytes consumed); it does not say at which byte a
                    // discarded-bytes count has to surface, so that is not asserted
                    if matches!(o.item, Item::Dec(DErr::Discarded(_))) {
                        continue;
                    }
                    if o.pos != want {
                        violation = Some(Violation::oracle(
                            "C10.consumption",
                            format!("{}: call {} returned {} after {} bytes had been pulled from the source; expected {} (stream {} bytes)", l.fe.name(), k, o.item.short(), o.pos, want, stream.len()),
                        ));
                        break;
                    }
                }
            }
        }

        // sub-configuration clean-small-buffer: files that do not fit the static buffer are lost (with
        // whatever errors; C16 / C17 say which), every file that fits is still yielded, in order and
        // unaltered, and nothing else is.  Side condition as for noise: the rest of a lost frame
        // together with the noise behind it must not contain a start sequence of its own.
        if l.sub == "clean-small-buffer" {
            let cap = match l.buf {
                BufKind::Arr(n) => n,
                _ => usize::MAX,
            };
            let mut inside = true;
            let mut expected: Vec<&[u8]> = Vec::new();
            let mut lost = 0usize;
            let mut g: Vec<u8> = Vec::new();
            for (sg, info) in l.segs.iter().zip(built.segs.iter()) {
                match sg {
                    Seg::Noise(x) => g.extend_from_slice(x),
                    Seg::Frame { payload, faults, .. } if faults.is_empty() && ref_read(payload).is_ok() => {
                        if !noise_ok(&g) {
                            inside = false;
                        }
                        g.clear();
                        if payload.len() <= cap {
                            expected.push(&payload.0);
                        } else {
                            lost += 1;
                            g.extend_from_slice(&stream[info.start + 8..info.end]);
                        }
                    }
                    _ => inside = false,
                }
            }
            if !g.is_empty() && !crate::refenc::start_positions(&g).is_empty() {
                inside = false;
            }
            if inside && lost > 0 {
                st.bump("probe", "small-buffer.file-lost");
                if !expected.is_empty() {
                    st.bump("probe", "small-buffer.file-kept");
                }
                let mut next = 0usize;
                for (k, (o, c)) in obs.iter().zip(made.iter()).enumerate() {
                    if !matches!(o.item, Item::Msg(_) | Item::File(_) | Item::Events(..) | Item::Parse(_)) {
                        continue;
                    }
                    if next >= expected.len() {
                        violation = Some(Violation::oracle(
                            "C10.small-buffer.extra-file",
                            format!("{} buffer {:?}: call {} returned {} although all {} file(s) that fit the buffer had been yielded already; log:{}", l.fe.name(), l.buf, k, o.item.short(), expected.len(), show_hist(&obs)),
                        ));
                        break;
                    }
                    let want = ref_payload(expected[next], *c);
                    next += 1;
                    if let Some(w) = want {
                        if w != o.item {
                            violation = Some(Violation::oracle(
                                "C10.small-buffer.wrong-file",
                                format!("{} buffer {:?}: call {} returned {} where file {} of those that fit the buffer ({}) was due; log:{}", l.fe.name(), l.buf, k, o.item.short(), next, w.short(), show_hist(&obs)),
                            ));
                            break;
                        }
                    } else if !matches!(o.item, Item::Events(..) | Item::File(_)) {
                        violation = Some(Violation::oracle("C10.small-buffer.wrong-file", format!("{}: call {} returned {} for a valid file; log:{}", l.fe.name(), k, o.item.short(), show_hist(&obs))));
                        break;
                    }
                }
                if violation.is_none() && next < expected.len() {
                    violation = Some(Violation::oracle(
                        "C10.small-buffer.file-not-yielded",
                        format!("{} buffer {:?}: {} of the {} file(s) that fit the buffer were yielded before the end of input ({} file(s) do not fit and are lost); log:{}", l.fe.name(), l.buf, next, expected.len(), lost, show_hist(&obs)),
                    ));
                }
            }
        }

        // oracle 2: hand composition, any stream
        if violation.is_none() {
            let (evs, leftover) = hand_decode_events(l.buf, stream);
            let mut queue2: Vec<Ev> = evs.into_iter().map(|(_, e)| e).collect();
            if leftover > 0 {
                queue2.push(Ev::Eof(leftover));
            }
            let mut skipped = 0;
            if let Err(d) = compare(&obs, &made, &queue2, &Ev::Eof(0), false, &mut skipped) {
                violation = Some(Violation::oracle(
                    "C10.hand-composition",
                    format!("{} buffer {:?}: SmlReader differs from Decoder + parser composed by hand: {}; log:{}", l.fe.name(), l.buf, d, show_hist(&obs)),
                ));
            }
            if obs.iter().any(|o| matches!(o.item, Item::Parse(_)) || matches!(&o.item, Item::Events(_, Some(_), _))) {
                st.bump("probe", "faulty.parse-error");
            }
        }
        let nontrivial = if clean { nfiles >= 2 || queue1.len() > nfiles } else { !built.fired.is_empty() || l.segs.len() > 1 };
        finish(st, &obs, violation, nontrivial, (stream.len() + ss.calls.get() + obs.len()) as u64)
    }
}
