//! C08 — resynchronisation after noise and after a sender crash.

use super::*;
use crate::core::{Outcome, Prop, Stats, Tier, Violation};
use crate::fe::{self, AppPlan, BufKind, Call, Fe, PushOp, SrcFault, SrcState};
use crate::gen::{self, NoiseClass, NOISE_CLASSES};
use crate::hexbytes::Hx;
use crate::refenc::{noise_ok, refenc, refenc_regions, Region, START};
use crate::rng::Rng;
use crate::scn::{build_stream, Enc, LinkScn, Scenario, Seg, WireFault};

pub struct C08Prop;
pub static C08: C08Prop = C08Prop;

/// idle-decoder histories
pub const HISTORIES: [&str; 9] = [
    "new",
    "after-delivered",
    "after-invalid-message",
    "after-invalid-esc",
    "after-oom",
    "after-reset",
    "after-finalize",
    "after-io-error",
    "after-noise-report",
];

/// cut offsets of the frame of `p` at which, by the region map, the receiver is
/// between tokens: at or after the end of the start sequence, not inside a
/// literal escape or the end sequence, the data sent so far not ending in 0x1b
pub fn legal_cuts(p: &[u8]) -> Vec<usize> {
    let (f, reg) = refenc_regions(p);
    let mut v = Vec::new();
    for cut in 8..f.len() {
        // the last transmitted byte is f[cut-1]
        let last = reg[cut - 1];
        let ok = match last {
            Region::Start(7) => true,
            Region::Data | Region::ZeroTail(_) | Region::Pad(_) => f[cut - 1] != 0x1b,
            _ => false,
        };
        if ok {
            v.push(cut);
        }
    }
    v
}

fn history_segs(rng: &mut Rng, h: &str, l: &mut LinkScn) {
    match h {
        "new" => {}
        "after-delivered" => {
            let p = gen::gen_payload_upto(rng, 19);
            l.segs.push(Seg::Frame {
                payload: Hx(p),
                enc: gen::gen_enc(rng),
                faults: vec![],
            });
        }
        "after-invalid-message" => {
            // canonical frame with one CRC byte changed: rejected at its last byte
            let p = gen::gen_payload_upto(rng, 19);
            let flen = refenc(&p).len();
            l.segs.push(Seg::Frame {
                payload: Hx(p),
                enc: Enc::Ref,
                faults: vec![WireFault::Flip {
                    at: flen - 1 - rng.below(2),
                    bit: rng.below(8) as u8,
                }],
            });
        }
        "after-invalid-esc" => {
            let mut v = START.to_vec();
            let n = 4 * rng.below(3);
            for i in 0..n {
                v.push(0x40 + i as u8);
            }
            if n > 0 && rng.chance(1, 2) {
                // the aborted frame's data ends in zeros that the decoder is still withholding
                let z = rng.range(1, n.min(4));
                for k in 0..z {
                    let at = v.len() - 1 - k;
                    v[at] = 0;
                }
            }
            v.extend_from_slice(&[0x1b; 4]);
            v.extend_from_slice(&[*rng.pick(&[0x02u8, 0x1c, 0x03]), 0x00, 0x00, 0x00]);
            l.segs.push(Seg::Raw(Hx(v)));
        }
        "after-oom" => {
            // needs a fixed buffer; START + (N+1) non-zero non-1b data bytes: OOM fires at the last one
            let n = *rng.pick(&[0usize, 1, 2, 3, 4, 5, 8, 16]);
            l.buf = BufKind::Arr(n);
            let mut p: Vec<u8> = (0..n + 1).map(|i| 0x50 + (i as u8 % 32)).collect();
            match rng.below(3) {
                0 => {
                    // the byte that does not fit is an ordinary one
                    l.segs.push(Seg::Cut { payload: Hx(p), cut: 8 + n + 1 });
                }
                1 => {
                    // ... is a withheld zero, found out when the next non-zero byte flushes the zeros
                    p.truncate(n);
                    let z = rng.range(1, 4);
                    p.extend(std::iter::repeat(0).take(z));
                    p.push(0x6f);
                    let cut = 8 + p.len();
                    l.segs.push(Seg::Cut { payload: Hx(p), cut });
                }
                _ => {
                    // ... is a withheld zero, found out at the end sequence of the (complete) frame
                    // (data zeros + padding zeros must not exceed the four the decoder withholds, or the
                    // fifth one would be stored - and overflow - before the frame is complete)
                    p.truncate(n);
                    let mut z = rng.range(1, 4);
                    while z > 1 && z + (4 - (n + z) % 4) % 4 > 4 {
                        z -= 1;
                    }
                    p.extend(std::iter::repeat(0).take(z));
                    l.segs.push(Seg::Frame { payload: Hx(p), enc: Enc::Ref, faults: vec![] });
                }
            }
            l.knobs.insert("max_payload".into(), n as i64);
        }
        "after-reset" | "after-finalize" => {
            // some partial junk, then the call
            let junk = match rng.below(4) {
                0 => Vec::new(),
                1 => gen::gen_raw(rng, 12),
                2 => {
                    let p = gen::gen_payload_upto(rng, 11);
                    let f = refenc(&p);
                    f[..rng.range(1, f.len() - 1)].to_vec()
                }
                _ => START[..rng.range(1, 8)].to_vec(),
            };
            l.segs.push(Seg::Raw(Hx(junk)));
        }
        "after-io-error" => {
            let junk = match rng.below(4) {
                0 => Vec::new(),
                1 => gen::gen_raw(rng, 12),
                2 => START[..rng.range(1, 8)].to_vec(),
                _ => {
                    let p = gen::gen_payload_upto(rng, 11);
                    let f = refenc(&p);
                    f[..rng.range(1, f.len() - 1)].to_vec()
                }
            };
            l.segs.push(Seg::Raw(Hx(junk)));
        }
        "after-noise-report" => {
            // noise, then a frame: the decoder has reported discarded bytes and delivered
            let (_, g) = gen::gen_noise(rng, 16);
            l.segs.push(Seg::Noise(Hx(g)));
            l.segs.push(Seg::Frame {
                payload: Hx(gen::gen_payload_upto(rng, 7)),
                enc: Enc::Ref,
                faults: vec![],
            });
        }
        _ => panic!("HARNESS: unknown history"),
    }
}

fn build(rng: &mut Rng, hist: &str, fe: Fe, class: Option<NoiseClass>, with_cut: bool, tier: Tier) -> LinkScn {
    let mut l = LinkScn::new("C08", hist, fe, BufKind::Vec);
    history_segs(rng, hist, &mut l);
    let idle_seg = l.segs.len();
    l.knobs.insert("idle_seg".into(), idle_seg as i64);
    let max_payload = l.knobs.get("max_payload").copied();
    if let Some(c) = class {
        let mut max = if tier == Tier::Thorough { 4000 } else { 1000 };
        if c == NoiseClass::Long && rng.chance(1, 4) {
            // now and then more noise than a 16-bit counter holds
            max = 70_000;
        }
        let g = gen::gen_noise_class(rng, c, max);
        l.segs.push(Seg::Noise(Hx(g)));
        l.knobs.insert("noise_class".into(), NOISE_CLASSES.iter().position(|x| *x == c).unwrap() as i64);
    }
    let mut tight: Option<usize> = None;
    if with_cut {
        let limit = max_payload.map(|m| m as usize).unwrap_or(40);
        if max_payload.is_none() && fe != Fe::Decode && rng.chance(1, 5) {
            // the sender crashed inside a transmission that would not have fitted the receiver's
            // buffer, at a point where exactly N bytes are stored and 1-4 zeros are still withheld:
            // nothing has overflowed yet, so the promise holds
            let n = *rng.pick(&[0usize, 1, 2, 3, 4, 7, 8, 12, 16]);
            let z = rng.range(1, 4);
            let mut p: Vec<u8> = (0..n).map(|i| 0x61 + (i as u8 % 20)).collect();
            p.extend(std::iter::repeat(0).take(z));
            p.extend_from_slice(&[0x71, 0x72, 0x73]);
            l.segs.push(Seg::Cut { payload: Hx(p), cut: 8 + n + z });
            tight = Some(n);
        } else {
            let p = gen::gen_payload_upto(rng, limit.min(40));
            let cuts = legal_cuts(&p);
            let cut = *rng.pick(&cuts);
            l.segs.push(Seg::Cut { payload: Hx(p), cut });
        }
    }
    let limit = max_payload.map(|m| m as usize).or(tight).unwrap_or(usize::MAX);
    let n = gen::payload_len(rng, tier, 600).min(limit);
    let m = gen::gen_payload_len(rng, n);
    l.segs.push(Seg::Frame {
        payload: Hx(m),
        enc: gen::gen_enc(rng),
        faults: vec![],
    });
    if let Some(n) = tight {
        // capacity exactly the stored part of the cut-off transmission; histories whose segments
        // need more room are not combined with this variant
        let need_hist = l.segs[..idle_seg].iter().map(|s| match s {
            Seg::Frame { payload, .. } | Seg::Cut { payload, .. } => payload.len(),
            Seg::Raw(b) => b.len(),
            _ => 0,
        }).max().unwrap_or(0);
        if need_hist <= n {
            l.buf = BufKind::Arr(n);
            l.knobs.insert("tight_cut".into(), 1);
        }
    }
    if l.buf == BufKind::Vec && fe != Fe::Decode {
        // buffer kind: any that holds every payload of the run
        let need = l
            .segs
            .iter()
            .map(|s| match s {
                Seg::Frame { payload, .. } | Seg::Cut { payload, .. } => payload.len(),
                // history junk may hold a frame-like prefix: its data must fit too, or the
                // history would end in an out-of-memory reset somewhere before its last byte
                Seg::Raw(b) => b.len(),
                _ => 0,
            })
            .max()
            .unwrap_or(0);
        l.buf = gen::gen_buf_fitting(rng, fe, need);
    }
    l
}

fn fe_for_history(rng: &mut Rng, hist: &str) -> Fe {
    match hist {
        "after-reset" | "after-finalize" => Fe::Push,
        "after-io-error" => *rng.pick(&[Fe::RdIo, Fe::RdEh]),
        "new" => *rng.pick(&[Fe::Push, Fe::Decode, Fe::Streaming, Fe::RdSlice, Fe::RdIter, Fe::RdIo]),
        // histories made of stream content: any front-end whose positions the harness sees
        _ => *rng.pick(&[Fe::Push, Fe::Streaming, Fe::RdIter, Fe::RdIo]),
    }
}

impl Prop for C08Prop {
    fn id(&self) -> &'static str {
        "C08"
    }
    fn runs(&self, tier: Tier) -> u64 {
        match tier {
            Tier::Quick => 200_000,
            Tier::Thorough => 15_000_000,
        }
    }
    fn rule(&self) -> &'static str {
        "idle decoder reached by one of 9 histories (new; after a delivered frame; after InvalidMessage; after InvalidEsc; after OutOfMemory; after reset(); after finalize(); after a source error; after a noise report), then noise g with `g ++ START contains START only at |g|` (classes: empty, random, ending in 1-9 x 1b, ending in 1-7 bytes of START, 1b1b1b1b then not 01, zeros, all-1b, long incl. 65535..70000 bytes) and/or a frame cut at an offset where no 1b run or escape is in progress, then a valid frame. Non-trivial = noise or cut present; distinct = distinct scenario fingerprint"
    }
    fn assumptions(&self) -> Vec<&'static str> {
        vec![
            "noise is generated under the property's own side condition and re-checked at run time; streams outside it are left to C02/C05/C14/C17",
            "histories that need API calls (reset, finalize) use the push decoder; the source-error history uses the io::Read / embedded-hal readers",
        ]
    }
    fn required_probes(&self, _tier: Tier) -> Vec<&'static str> {
        vec![
            "probe.noise.ends-1b",
            "probe.noise.ends-partial-start",
            "probe.noise.long",
            "probe.cut",
            "probe.hist.after-oom",
            "probe.hist.after-io-error",
        ]
    }

    fn directed(&self, _tier: Tier) -> Vec<Scenario> {
        // every prefix of START (and 1-9 x 1b) as noise tail x every idle history
        let mut v = Vec::new();
        let mut rng = Rng::new(0xC08);
        for hist in HISTORIES {
            let mut tails: Vec<Vec<u8>> = (1..8).map(|k| START[..k].to_vec()).collect();
            for k in 5..10 {
                tails.push(vec![0x1b; k]);
            }
            tails.push(vec![0x1b, 0x1b, 0x1b, 0x1b, 0x01, 0x1b]);
            tails.push(vec![0x1b, 0x1b, 0x1b, 0x1b, 0x01, 0x01, 0x01, 0x1b, 0x1b]);
            for t in &tails {
                for lead in [&[][..], &[0x42u8, 0x00][..]] {
                    let fe = fe_for_history(&mut rng, hist);
                    let mut l = build(&mut rng, hist, fe, None, false, Tier::Quick);
                    let mut g = lead.to_vec();
                    g.extend_from_slice(t);
                    if !noise_ok(&g) {
                        continue;
                    }
                    let at = l.segs.len() - 1;
                    l.segs.insert(at, Seg::Noise(Hx(g)));
                    finish_ops(&mut l, hist, &mut rng);
                    v.push(Scenario::Link(l));
                }
            }
        }
        // small scope: every noise string over {1b, 01, 00} up to length 6 (thorough: 9) that satisfies
        // the side condition, on a new decoder and after a delivered frame
        let maxlen = if _tier == Tier::Thorough { 9 } else { 6 };
        for (i, g) in gen::all_strings(&[0x1b, 0x01, 0x00], maxlen).into_iter().enumerate() {
            if g.is_empty() || !noise_ok(&g) {
                continue;
            }
            let hist = if i % 2 == 0 { "new" } else { "after-delivered" };
            let fe = [Fe::Push, Fe::Streaming, Fe::RdIter, Fe::RdIo][i % 4];
            let mut l = build(&mut rng, hist, fe, None, false, Tier::Quick);
            let at = l.segs.len() - 1;
            l.segs.insert(at, Seg::Noise(Hx(g)));
            l.sub = hist.into();
            v.push(Scenario::Link(l));
        }
        v
    }

    fn gen(&self, rng: &mut Rng, tier: Tier) -> Scenario {
        let hist = HISTORIES[rng.below(HISTORIES.len())];
        let fe = fe_for_history(rng, hist);
        let (class, with_cut) = match rng.below(10) {
            0..=5 => (Some(gen::gen_noise(rng, 0).0), false),
            6..=7 => (None, true),
            _ => (Some(gen::gen_noise(rng, 0).0), true),
        };
        let mut l = build(rng, hist, fe, class, with_cut, tier);
        finish_ops(&mut l, hist, rng);
        l.extra_polls = rng.below(3);
        if fe == Fe::RdIo && rng.chance(1, 3) {
            // interrupted system calls while the noise / the frames arrive: invisible by io::Read's contract
            let len = build_stream(&l.segs).stream.len();
            let k = rng.range(1, 4);
            let mut f = gen::gen_src_faults(rng, len, k, &[SrcFault::Interrupted]);
            l.src.append(&mut f);
            l.src.sort_by_key(|(p, _)| *p);
        }
        Scenario::Link(l)
    }

    fn exec(&self, scn: &Scenario, st: &mut Stats) -> Outcome {
        let l = link(scn);
        let built = build_stream(&l.segs);
        let stream = &built.stream;
        let idle_seg = (l.knob("idle_seg") as usize).min(l.segs.len());
        // domain check (the minimiser may leave the domain): after the idle point only
        // Noise* Cut? Frame(intact), noise satisfying the side condition, legal cut
        let tail = &l.segs[idle_seg..];
        let mut expected: Vec<Item> = Vec::new();
        let mut noise_len = 0usize;
        let mut seen_cut = false;
        let mut final_payload: Option<Vec<u8>> = None;
        for (k, s) in tail.iter().enumerate() {
            match s {
                Seg::Noise(g) if !seen_cut && final_payload.is_none() => {
                    noise_len += g.len();
                }
                Seg::Cut { payload, cut } if !seen_cut && final_payload.is_none() => {
                    if !legal_cuts(payload).contains(cut) {
                        return Outcome::default();
                    }
                    seen_cut = true;
                    if noise_len > 0 {
                        expected.push(Item::Dec(DErr::Discarded(noise_len)));
                    }
                    expected.push(Item::Dec(DErr::Discarded(*cut)));
                    noise_len = 0;
                }
                Seg::Frame { payload, faults, .. } if faults.is_empty() && k + 1 == tail.len() => {
                    if noise_len > 0 {
                        expected.push(Item::Dec(DErr::Discarded(noise_len)));
                    }
                    expected.push(Item::Msg(payload.0.clone()));
                    final_payload = Some(payload.0.clone());
                }
                _ => return Outcome::default(),
            }
        }
        if final_payload.is_none() {
            return Outcome::default();
        }
        // the concatenated noise must satisfy the side condition as a whole
        {
            let mut g = Vec::new();
            for s in tail {
                if let Seg::Noise(x) = s {
                    g.extend_from_slice(x);
                }
            }
            if !noise_ok(&g) {
                return Outcome::default();
            }
        }
        let idle_pos = if idle_seg == 0 { 0 } else { built.segs[idle_seg - 1].end };
        if !l.fe.has_pos() && idle_seg != 0 {
            return Outcome::default();
        }
        if l.sub == "after-io-error" && !l.src.iter().any(|(p, f)| *p == idle_pos && matches!(f, SrcFault::Other(_))) {
            return Outcome::default();
        }
        if (l.sub == "after-reset" || l.sub == "after-finalize") && !l.ops.iter().any(|(p, _)| *p == idle_pos) {
            return Outcome::default();
        }
        // the history must still be one that ends in an idle decoder (the minimiser may have changed it)
        let hist = &l.segs[..idle_seg];
        let cap = match l.buf {
            BufKind::Arr(n) => n,
            BufKind::Default => 8192,
            BufKind::Vec => usize::MAX,
        };
        let hist_ok = match l.sub.as_str() {
            "new" => hist.is_empty(),
            "after-delivered" => matches!(hist, [Seg::Frame { payload, faults, .. }] if faults.is_empty() && payload.len() <= cap),
            "after-invalid-message" => matches!(hist, [Seg::Frame { payload, faults, .. }] if faults.len() == 1 && payload.len() <= cap
                && matches!(faults[0], WireFault::Flip { at, .. } if at + 2 >= refenc(payload).len() && at < refenc(payload).len())),
            "after-invalid-esc" => matches!(hist, [Seg::Raw(b)] if b.len() >= 16 && b.len() % 4 == 0 && b[..8] == START && b[b.len() - 8..b.len() - 4] == [0x1b; 4]
                && ![0x1b, 0x01, 0x1a].contains(&b[b.len() - 4]) && b.len() - 16 <= cap && !b[8..b.len() - 8].contains(&0x1b)),
            "after-oom" => match hist {
                [Seg::Cut { payload, cut }] => {
                    // N data bytes that fit, then either one more ordinary byte, or 1-4 zeros and one more byte
                    cap != usize::MAX
                        && *cut == 8 + payload.len()
                        && payload.len() > cap
                        && payload.len() <= cap + 5
                        && !payload.contains(&0x1b)
                        && payload[..cap].iter().all(|b| *b != 0)
                        && *payload.last().unwrap() != 0
                        && payload[cap..payload.len() - 1].iter().all(|b| *b == 0)
                }
                [Seg::Frame { payload, faults, .. }] => {
                    let z = payload.len().saturating_sub(cap);
                    cap != usize::MAX
                        && faults.is_empty()
                        && (1..=4).contains(&z)
                        && !payload.contains(&0x1b)
                        && payload[..cap].iter().all(|b| *b != 0)
                        && payload[cap..].iter().all(|b| *b == 0)
                        && z + (4 - payload.len() % 4) % 4 <= 4
                }
                _ => false,
            },
            "after-reset" | "after-finalize" | "after-io-error" => matches!(hist, [Seg::Raw(_)]),
            "after-noise-report" => matches!(hist, [Seg::Noise(g), Seg::Frame { payload, faults, .. }] if faults.is_empty() && noise_ok(g) && payload.len() <= cap),
            _ => false,
        };
        if !hist_ok {
            return Outcome::default();
        }
        st.add_dyn(format!("probe.hist.{}", l.sub), 1);
        if let Some(c) = l.knobs.get("noise_class") {
            st.add_dyn(format!("probe.noise.{}", NOISE_CLASSES[*c as usize % NOISE_CLASSES.len()].name()), 1);
        }
        if seen_cut {
            st.bump("probe", "cut");
        }
        if l.knob("tight_cut") == 1 {
            st.bump("probe", "cut-with-withheld-zeros-at-capacity");
        }
        st.bump("cfg.fe", l.fe.name());

        let obs = match l.fe {
            Fe::Push => fe::drive_push_kind(l.buf, stream, &l.ops, 0, true),
            Fe::Decode => fe::drive_decode(stream),
            Fe::Streaming => fe::drive_streaming_kind(l.buf, stream, l.extra_polls),
            _ => {
                let ss = SrcState::new(stream, &l.src);
                let plan = AppPlan {
                    calls: &[Call::NEXT_BYTES],
                    extra_polls: l.extra_polls,
                    alloc_fail: 0,
                };
                fe::run_reader(l.fe, l.buf, &ss, &plan, false).0
            }
        };
        // history from the idle point
        let after: Vec<Obs> = if idle_seg == 0 {
            obs.clone()
        } else {
            let mut v: Vec<Obs> = obs.iter().filter(|o| o.pos > idle_pos).cloned().collect();
            // items produced exactly at the idle position by the history's own API call / source error are history
            // (pos == idle_pos), items after it have pos > idle_pos; terminal items have pos == len > idle_pos
            if stream.len() == idle_pos {
                v = Vec::new();
            }
            v
        };
        let mut exp_full = expected.clone();
        match l.fe {
            Fe::Push => exp_full.push(Item::FinNone),
            Fe::Decode => {}
            Fe::RdEh => {} // an idle UART never ends; terminal would-blocks are stripped below
            _ => exp_full.extend(vec![Item::End; 1 + l.extra_polls]),
        }
        let got = items(&strip_would_block(&after));
        let mut violation = None;
        // noise followed by a cut-off frame is covered by neither clause alone: the property fixes the
        // total that has to be reported as discarded, not how it is split into reports
        let combined = seen_cut && expected.len() == 3;
        let combined_ok = combined && {
            let total: usize = expected.iter().map(|e| if let Item::Dec(DErr::Discarded(n)) = e { *n } else { 0 }).sum();
            let k = got.iter().take_while(|i| matches!(i, Item::Dec(DErr::Discarded(_)))).count();
            let sum: usize = got[..k].iter().map(|i| if let Item::Dec(DErr::Discarded(n)) = i { *n } else { 0 }).sum();
            k >= 1 && sum == total && got[k..] == exp_full[2..]
        };
        if got != exp_full && !combined_ok {
            violation = Some(Violation::oracle(
                "C08.resync",
                format!(
                    "history '{}' front-end {} buffer {:?}: from the idle point (stream offset {}) expected {} got {}; stream tail {}",
                    l.sub,
                    l.fe.name(),
                    l.buf,
                    idle_pos,
                    show_items(&exp_full),
                    show_items(&got),
                    crate::hexbytes::hex(&stream[idle_pos..stream.len().min(idle_pos + 48)])
                ),
            ));
        }
        let nontrivial = noise_len > 0 || seen_cut || tail.iter().any(|s| matches!(s, Seg::Noise(g) if !g.is_empty()));
        finish(st, &obs, violation, nontrivial, (stream.len() + obs.len()) as u64)
    }
}

/// add the API call / source error that makes the history end in an idle state
fn finish_ops(l: &mut LinkScn, hist: &str, rng: &mut Rng) {
    let idle_seg = l.knob("idle_seg") as usize;
    let built = build_stream(&l.segs[..idle_seg]);
    let idle_pos = built.stream.len();
    match hist {
        "after-reset" => l.ops.push((idle_pos, PushOp::Reset)),
        "after-finalize" => l.ops.push((idle_pos, PushOp::Finalize)),
        "after-io-error" => l.src.push((idle_pos, SrcFault::Other(rng.below(6) as u8))),
        _ => {}
    }
}
