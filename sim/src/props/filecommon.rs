//! FILE engine: hand one byte string to the reference reader and to both
//! parsers (each under the accounting allocator, panics caught per parser).

use crate::alloc::{self, AllocStats};
use crate::core::Stats;
use crate::obs::PErr;
use crate::runner::catch;
use crate::smlref::{conv_event, conv_file, reassemble, ref_read, REv, RFile, Reassembled, Reject};
use sml_rs::parser::complete;
use sml_rs::parser::streaming::Parser;

#[derive(Clone, Copy, PartialEq, Eq, Debug, Hash)]
pub enum Poll {
    Event,
    Err,
    None,
}

pub struct ParserRun {
    pub x_len: usize,
    pub reference: Result<RFile, Reject>,
    /// Ok(Ok(file)) | Ok(Err(parse error)) | Err(panic description)
    pub complete: Result<Result<RFile, PErr>, crate::core::Violation>,
    pub complete_alloc: AllocStats,
    /// streaming: events up to the first Err / None (or the budget)
    pub events: Vec<REv>,
    pub stream_err: Option<PErr>,
    pub stream_panic: Option<crate::core::Violation>,
    /// every poll result in order, including the polls after the end
    pub polls: Vec<Poll>,
    /// the iteration was cut at the budget (|x| + 1 + extra polls)
    pub budget_exhausted: bool,
    /// the events were no longer recorded because their octet strings add up to more than 2|x| + 64 KiB
    pub events_capped: bool,
    pub stream_alloc: AllocStats,
    pub reassembled: Reassembled,
    /// largest `size_hint().0 - items still to come` seen before any poll (0 if the hint never over-promised)
    pub hint_overpromise: usize,
    pub hint_max_lower: usize,
    /// a second consumer that advances with `nth(k)` (what `skip` and `step_by` do): k, and its poll results
    pub nth_step: usize,
    pub nth_polls: Vec<Poll>,
    pub nth_panic: Option<crate::core::Violation>,
}

pub fn run_parsers(x: &[u8], extra_polls: usize) -> ParserRun {
    let reference = ref_read(x);

    // allocating parser
    let mut complete_alloc = AllocStats::default();
    let complete = catch(|| {
        let (r, a) = alloc::scope(0, || complete::parse(x).map(|f| alloc::unscoped(|| conv_file(&f))).map_err(|e| alloc::unscoped(|| PErr::from(&e))));
        (r, a)
    })
    .map(|(r, a)| {
        complete_alloc = a;
        r
    });

    // streaming parser: |x| + 1 items at most, then `extra_polls` further polls
    let mut events: Vec<REv> = Vec::with_capacity(64);
    let mut polls: Vec<Poll> = Vec::with_capacity(64);
    let mut stream_err = None;
    let mut budget_exhausted = false;
    let mut events_capped = false;
    let mut event_bytes = 0usize;
    let mut stream_alloc = AllocStats::default();
    let mut hints: Vec<usize> = Vec::with_capacity(64);
    let budget = x.len() + 2;
    let sp = catch(|| {
        let armed = alloc::arm(0);
        let mut p = armed.call(|| Parser::new(x));
        let mut ended = false;
        let mut extra = 0usize;
        let mut n = 0usize;
        loop {
            let lower = armed.call(|| p.size_hint().0);
            hints.push(lower);
            let item = armed.call(|| p.next());
            n += 1;
            match item {
                None => {
                    polls.push(Poll::None);
                    ended = true;
                }
                Some(Ok(e)) => {
                    polls.push(Poll::Event);
                    if !ended && !events_capped {
                        // entries borrow disjoint parts of x: a parser that hands out more than that is
                        // wrong already, and its events are no longer kept (they may be gigabytes)
                        let ev = conv_event(&e);
                        if let REv::Entry(en) = &ev {
                            event_bytes += en.name.0.len() + en.sig.as_ref().map_or(0, |h| h.0.len()) + if let crate::smlref::RValue::Bytes(h) = &en.value { h.0.len() } else { 0 };
                        }
                        if event_bytes > 2 * x.len() + 65_536 {
                            events_capped = true;
                        } else {
                            events.push(ev);
                        }
                    }
                }
                Some(Err(e)) => {
                    polls.push(Poll::Err);
                    if !ended {
                        stream_err = Some(PErr::from(&e));
                    }
                    ended = true;
                }
            }
            if ended {
                if extra >= extra_polls {
                    break;
                }
                extra += 1;
            } else if n >= budget {
                budget_exhausted = true;
                break;
            }
        }
        stream_alloc = armed.stats();
    });
    let stream_panic = sp.err();

    // second consumer: advances with nth(k), keeps polling a few times after its first Err / None
    let nth_step = 1 + x.len() % 3;
    let mut nth_polls: Vec<Poll> = Vec::new();
    let mut nth_panic = None;
    if x.len() <= 4096 && stream_panic.is_none() && !budget_exhausted {
        let after = extra_polls.clamp(2, 8);
        nth_panic = catch(|| {
            let mut p = Parser::new(x);
            let mut ended = false;
            let mut extra = 0usize;
            loop {
                match p.nth(nth_step) {
                    None => {
                        nth_polls.push(Poll::None);
                        ended = true;
                    }
                    Some(Ok(_)) => nth_polls.push(Poll::Event),
                    Some(Err(_)) => {
                        nth_polls.push(Poll::Err);
                        ended = true;
                    }
                }
                if ended {
                    if extra >= after {
                        break;
                    }
                    extra += 1;
                } else if nth_polls.len() >= budget {
                    break;
                }
            }
        })
        .err();
    }
    let reassembled = reassemble(&events);
    // items actually produced from poll k on = number of polls k.. that returned an item
    let mut hint_overpromise = 0usize;
    let mut remaining = polls.iter().filter(|p| **p != Poll::None).count();
    for (k, h) in hints.iter().enumerate() {
        if *h > remaining && !budget_exhausted {
            hint_overpromise = hint_overpromise.max(*h - remaining);
        }
        if polls.get(k).map(|p| *p != Poll::None).unwrap_or(false) {
            remaining -= 1;
        }
    }
    let hint_max_lower = hints.iter().copied().max().unwrap_or(0);
    ParserRun {
        x_len: x.len(),
        reference,
        complete,
        complete_alloc,
        events,
        stream_err,
        stream_panic,
        polls,
        budget_exhausted,
        events_capped,
        stream_alloc,
        reassembled,
        hint_overpromise,
        hint_max_lower,
        nth_step,
        nth_polls,
        nth_panic,
    }
}

pub fn count_outcomes(st: &mut Stats, r: &ParserRun, resealed: bool) {
    if let Ok(Ok(_)) = &r.complete {
        if r.x_len >= 3 {
            st.bump("probe", "complete.ok-nonempty");
        }
    }
    match &r.reference {
        Ok(_) => st.bump("probe", "ref.accept"),
        Err(Reject(why)) => st.add_dyn(format!("probe.ref.reject.{}", why.replace(' ', "-")), 1),
    }
    match &r.complete {
        Ok(Ok(_)) => st.bump("probe", "complete.ok"),
        Ok(Err(e)) => {
            st.add_dyn(format!("probe.complete.err.{}", e.variant), 1);
            if resealed && e.variant != "CrcMismatch" {
                st.add_dyn(format!("probe.resealed-reached.{}", e.variant), 1);
            }
        }
        Err(_) => st.bump("probe", "complete.panic"),
    }
    if r.stream_panic.is_some() {
        st.bump("probe", "streaming.panic");
    }
}
