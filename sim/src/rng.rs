//! The one PRNG of the simulator (xoshiro256** seeded through splitmix64).
//! Every generated choice of a run comes from one `Rng`; execution, logging,
//! oracles and minimisation never touch it.

#[derive(Clone)]
pub struct Rng {
    s: [u64; 4],
}

pub fn splitmix(x: &mut u64) -> u64 {
    *x = x.wrapping_add(0x9E37_79B9_7F4A_7C15);
    let mut z = *x;
    z = (z ^ (z >> 30)).wrapping_mul(0xBF58_476D_1CE4_E5B9);
    z = (z ^ (z >> 27)).wrapping_mul(0x94D0_49BB_1331_11EB);
    z ^ (z >> 31)
}

/// seed of run `k` of the batch of `prop` under `VERIF_SEED = seed`
pub fn mix(seed: u64, prop: &str, k: u64) -> u64 {
    let mut h = seed ^ 0x5eed_5eed_5eed_5eed;
    for b in prop.bytes() {
        h = h.wrapping_mul(0x100_0000_01b3) ^ u64::from(b);
    }
    let mut x = h ^ k.wrapping_mul(0xD605_0B53_64A3_2E4B);
    let a = splitmix(&mut x);
    let b = splitmix(&mut x);
    a ^ b.rotate_left(17)
}

impl Rng {
    pub fn new(seed: u64) -> Self {
        let mut x = seed;
        let s = [
            splitmix(&mut x),
            splitmix(&mut x),
            splitmix(&mut x),
            splitmix(&mut x),
        ];
        Rng { s }
    }

    pub fn next_u64(&mut self) -> u64 {
        let result = self.s[1].wrapping_mul(5).rotate_left(7).wrapping_mul(9);
        let t = self.s[1] << 17;
        self.s[2] ^= self.s[0];
        self.s[3] ^= self.s[1];
        self.s[1] ^= self.s[2];
        self.s[0] ^= self.s[3];
        self.s[2] ^= t;
        self.s[3] = self.s[3].rotate_left(45);
        result
    }

    /// uniform in 0..n (n > 0)
    pub fn below(&mut self, n: usize) -> usize {
        debug_assert!(n > 0);
        ((u128::from(self.next_u64()) * (n as u128)) >> 64) as usize
    }

    /// uniform in lo..=hi
    pub fn range(&mut self, lo: usize, hi: usize) -> usize {
        lo + self.below(hi - lo + 1)
    }

    /// true with probability num/den
    pub fn chance(&mut self, num: usize, den: usize) -> bool {
        self.below(den) < num
    }

    pub fn byte(&mut self) -> u8 {
        (self.next_u64() >> 56) as u8
    }

    pub fn pick<'a, T>(&mut self, xs: &'a [T]) -> &'a T {
        &xs[self.below(xs.len())]
    }

    pub fn bytes(&mut self, n: usize) -> Vec<u8> {
        let mut v = Vec::with_capacity(n);
        while v.len() < n {
            let w = self.next_u64().to_le_bytes();
            let k = (n - v.len()).min(8);
            v.extend_from_slice(&w[..k]);
        }
        v
    }

    /// lo..=hi random bytes
    pub fn bytes_range(&mut self, lo: usize, hi: usize) -> Vec<u8> {
        let n = self.range(lo, hi);
        self.bytes(n)
    }

    /// pick an index according to integer weights
    pub fn weighted(&mut self, w: &[usize]) -> usize {
        let total: usize = w.iter().sum();
        let mut r = self.below(total);
        for (i, x) in w.iter().enumerate() {
            if r < *x {
                return i;
            }
            r -= *x;
        }
        w.len() - 1
    }
}
