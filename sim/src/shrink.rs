//! Minimisation: shrink a failing scenario while the same violation
//! signature (class + clause) persists.  Never draws from a PRNG.

use crate::core::{Prop, Stats, Violation};
use crate::hexbytes::Hx;
use crate::scn::*;

/// execute with panics caught; returns the violation if any
pub fn exec_caught(prop: &dyn Prop, scn: &Scenario, want_hist: bool) -> (Option<Violation>, String, u64) {
    let mut st = Stats::default();
    st.want_hist = want_hist;
    let r = crate::runner::catch(|| prop.exec(scn, &mut st));
    match r {
        Ok(o) => (o.violation, o.hist, o.hist_hash),
        Err(v) => {
            if prop.crash_is_violation() {
                (Some(v), String::new(), 0)
            } else {
                (None, String::new(), 0)
            }
        }
    }
}

fn shrink_bytes(b: &[u8]) -> Vec<Vec<u8>> {
    let mut out = Vec::new();
    let n = b.len();
    if n == 0 {
        return out;
    }
    out.push(Vec::new());
    // halves, quarters, ...
    let mut chunk = n / 2;
    while chunk >= 1 {
        let mut i = 0;
        while i < n {
            let mut v = b[..i].to_vec();
            v.extend_from_slice(&b[(i + chunk).min(n)..]);
            out.push(v);
            i += chunk;
        }
        if chunk == 1 {
            break;
        }
        chunk /= 2;
        if out.len() > 200 {
            break;
        }
    }
    // canonicalise bytes
    for (i, x) in b.iter().enumerate().take(64) {
        if ![0x00u8, 0x1b, 0x01, 0x1a, 0xaa].contains(x) {
            let mut v = b.to_vec();
            v[i] = 0xaa;
            out.push(v);
        }
    }
    out
}

fn candidates_link(l: &LinkScn) -> Vec<LinkScn> {
    let mut out = Vec::new();
    // drop segments
    for i in 0..l.segs.len() {
        let mut c = l.clone();
        c.segs.remove(i);
        out.push(c);
    }
    // drop source faults / ops / calls / polls / alloc failure
    for i in 0..l.src.len() {
        let mut c = l.clone();
        c.src.remove(i);
        out.push(c);
    }
    if l.src.len() > 3 {
        let mut c = l.clone();
        c.src.truncate(l.src.len() / 2);
        out.push(c);
        let mut c = l.clone();
        c.src.drain(..l.src.len() / 2);
        out.push(c);
    }
    for i in 0..l.ops.len() {
        let mut c = l.clone();
        c.ops.remove(i);
        out.push(c);
    }
    if l.calls.len() > 1 {
        for i in 0..l.calls.len() {
            let mut c = l.clone();
            c.calls.remove(i);
            out.push(c);
        }
    }
    if l.extra_polls > 0 {
        let mut c = l.clone();
        c.extra_polls = 0;
        out.push(c);
        let mut c = l.clone();
        c.extra_polls /= 2;
        out.push(c);
    }
    if l.alloc_fail > 0 {
        let mut c = l.clone();
        c.alloc_fail = 0;
        out.push(c);
    }
    // per segment: drop faults, shrink bytes
    for (i, s) in l.segs.iter().enumerate() {
        match s {
            Seg::Frame {
                payload,
                enc,
                faults,
            } => {
                for j in 0..faults.len() {
                    let mut c = l.clone();
                    let mut f = faults.clone();
                    f.remove(j);
                    c.segs[i] = Seg::Frame {
                        payload: payload.clone(),
                        enc: *enc,
                        faults: f,
                    };
                    out.push(c);
                }
                for p in shrink_bytes(payload) {
                    let mut c = l.clone();
                    c.segs[i] = Seg::Frame {
                        payload: Hx(p),
                        enc: *enc,
                        faults: faults.clone(),
                    };
                    out.push(c);
                }
                if *enc != Enc::Ref {
                    let mut c = l.clone();
                    c.segs[i] = Seg::Frame {
                        payload: payload.clone(),
                        enc: Enc::Ref,
                        faults: faults.clone(),
                    };
                    out.push(c);
                }
            }
            Seg::Noise(b) => {
                for p in shrink_bytes(b) {
                    if crate::refenc::noise_ok(&p) {
                        let mut c = l.clone();
                        c.segs[i] = Seg::Noise(Hx(p));
                        out.push(c);
                    }
                }
            }
            Seg::Raw(b) => {
                for p in shrink_bytes(b) {
                    let mut c = l.clone();
                    c.segs[i] = Seg::Raw(Hx(p));
                    out.push(c);
                }
            }
            Seg::Cut { payload, cut } => {
                for p in shrink_bytes(payload) {
                    let mut c = l.clone();
                    c.segs[i] = Seg::Cut {
                        payload: Hx(p),
                        cut: *cut,
                    };
                    out.push(c);
                }
                if *cut > 8 {
                    let mut c = l.clone();
                    c.segs[i] = Seg::Cut {
                        payload: payload.clone(),
                        cut: 8,
                    };
                    out.push(c);
                    let mut c = l.clone();
                    c.segs[i] = Seg::Cut {
                        payload: payload.clone(),
                        cut: cut - 1,
                    };
                    out.push(c);
                }
            }
        }
    }
    out
}

fn candidates_file(f: &FileScn) -> Vec<FileScn> {
    let mut out = Vec::new();
    for i in 0..f.msgs.len() {
        let mut c = f.clone();
        c.msgs.remove(i);
        out.push(c);
    }
    for i in 0..f.post.len() {
        let mut c = f.clone();
        c.post.remove(i);
        out.push(c);
    }
    if f.extra_polls > 0 {
        let mut c = f.clone();
        c.extra_polls = 0;
        out.push(c);
    }
    for (i, op) in f.post.iter().enumerate() {
        if let crate::scn::ByteOp::Run { at, pattern, count } = op {
            for n in [count / 16, count / 2, count - count / 8, count.saturating_sub(1)] {
                if n > 0 && n < *count {
                    let mut c = f.clone();
                    c.post[i] = crate::scn::ByteOp::Run { at: *at, pattern: pattern.clone(), count: n };
                    out.push(c);
                }
            }
        }
    }
    for (i, m) in f.msgs.iter().enumerate() {
        if m.seal != Seal::Good {
            let mut c = f.clone();
            c.msgs[i].seal = Seal::Good;
            out.push(c);
        }
        for p in shrink_bytes(&m.body) {
            let mut c = f.clone();
            c.msgs[i].body = Hx(p);
            out.push(c);
        }
    }
    out
}

fn candidates_buf(b: &BufScn) -> Vec<BufScn> {
    let mut out = Vec::new();
    for i in 0..b.ops.len() {
        let mut c = b.clone();
        c.ops.remove(i);
        out.push(c);
    }
    for i in 0..b.ops_b.len() {
        let mut c = b.clone();
        c.ops_b.remove(i);
        out.push(c);
    }
    if b.alloc_fail > 0 {
        let mut c = b.clone();
        c.alloc_fail = 0;
        out.push(c);
    }
    for (i, op) in b.ops.iter().enumerate() {
        if let BufOp::Extend(x) | BufOp::FromIter(x) = op {
            if x.len() > 1 {
                let mut c = b.clone();
                let h = Hx(x[..x.len() / 2].to_vec());
                c.ops[i] = match op {
                    BufOp::Extend(_) => BufOp::Extend(h),
                    _ => BufOp::FromIter(h),
                };
                out.push(c);
            }
        }
    }
    out
}

pub fn candidates(s: &Scenario) -> Vec<Scenario> {
    match s {
        Scenario::Link(l) => candidates_link(l).into_iter().map(Scenario::Link).collect(),
        Scenario::File(f) => candidates_file(f).into_iter().map(Scenario::File).collect(),
        Scenario::Buf(b) => candidates_buf(b).into_iter().map(Scenario::Buf).collect(),
    }
}

pub fn size(s: &Scenario) -> usize {
    let json = serde_json::to_string(s).map(|x| x.len()).unwrap_or(usize::MAX);
    // a run is as large as the bytes it stands for
    let runs: usize = match s {
        Scenario::File(f) => f
            .post
            .iter()
            .map(|op| match op {
                crate::scn::ByteOp::Run { pattern, count, .. } => pattern.len() * count,
                _ => 0,
            })
            .sum(),
        _ => 0,
    };
    json.saturating_add(runs)
}

/// greedy first-improvement descent, bounded by `budget` executions
pub fn minimise(prop: &dyn Prop, scn: &Scenario, sig: &str, budget: usize) -> (Scenario, usize) {
    let mut best = scn.clone();
    let mut best_size = size(&best);
    let mut execs = 0;
    'outer: loop {
        let cands = candidates(&best);
        for c in cands {
            if execs >= budget {
                break 'outer;
            }
            let cs = size(&c);
            if cs >= best_size {
                continue;
            }
            execs += 1;
            let (v, _, _) = exec_caught(prop, &c, false);
            if let Some(v) = v {
                if v.signature() == sig {
                    best = c;
                    best_size = cs;
                    continue 'outer;
                }
            }
        }
        break;
    }
    (best, execs)
}
