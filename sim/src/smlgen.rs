//! The simulated meter (FILE / E2E engines): abstract SML files, a wire
//! encoder with firmware-profile knobs, a tolerant TLF walker, Byzantine
//! mutations (with re-sealed CRC) and the corpus of real meter frames.

use crate::core::Tier;
use crate::hexbytes::Hx;
use crate::rng::Rng;
use crate::scn::{ByteOp, FileScn, MsgScn, Seal};
use crate::smlref::*;
use std::sync::OnceLock;

// ---------------------------------------------------------------------------
// abstract files
// ---------------------------------------------------------------------------

fn gen_oct(rng: &mut Rng, max: usize) -> Hx {
    if max >= 8 && rng.chance(1, 8) {
        // bytes that matter to the transport layer underneath: zero runs, 1b runs, look-alikes
        let n = rng.range(4, max.min(24));
        return Hx(crate::gen::payload_tokens(rng, n));
    }
    let n = match rng.below(10) {
        0 => 0,
        1 => rng.range(14, 17),
        2 => rng.range(0, max),
        _ => rng.range(1, 10.min(max.max(1))),
    };
    Hx(rng.bytes(n.min(max)))
}

fn gen_opt_oct(rng: &mut Rng, max: usize) -> Option<Hx> {
    if rng.chance(1, 2) {
        None
    } else {
        Some(gen_oct(rng, max))
    }
}

fn gen_u(rng: &mut Rng, bytes: usize) -> u64 {
    // every leading-byte pattern: small, sign-bit set, all ones, random
    let max = if bytes == 8 { u64::MAX } else { (1u64 << (8 * bytes)) - 1 };
    match rng.below(8) {
        0 => 0,
        1 => max,
        2 => max >> 1,
        3 => (max >> 1) + 1,
        4 => rng.next_u64() & 0xff,
        5 | 6 => {
            // the limits of every *shorter* encoding (the wire uses the fewest bytes that hold the
            // value, so these are the values whose first wire byte is 80, 7f, ff, 00 at each width):
            // +-2^(8k-1), 2^(8k-1)-1, 2^(8k)-1, -2^(8k-1)-1 as two's complement of this width
            let k = rng.range(1, bytes) as u32;
            let b: u128 = 1u128 << (8 * k - 1);
            let m: u128 = u128::from(max) + 1;
            let c = [b, b - 1, (b << 1) - 1, m - b, m.wrapping_sub(b + 1), b + 1];
            (*rng.pick(&c) & u128::from(max)) as u64
        }
        _ => rng.next_u64() & max,
    }
}

fn gen_value(rng: &mut Rng) -> RValue {
    match rng.below(12) {
        0 => RValue::Bool(rng.chance(1, 2)),
        1 => RValue::Bytes(gen_oct(rng, 40)),
        2 => RValue::I8(gen_u(rng, 1) as u8 as i8),
        3 => RValue::I16(gen_u(rng, 2) as u16 as i16),
        4 => RValue::I32(gen_u(rng, 4) as u32 as i32),
        5 => RValue::I64(gen_u(rng, 8) as i64),
        6 => RValue::U8(gen_u(rng, 1) as u8),
        7 => RValue::U16(gen_u(rng, 2) as u16),
        8 => RValue::U32(gen_u(rng, 4) as u32),
        9 => RValue::U64(gen_u(rng, 8)),
        10 => RValue::ListTime(gen_u(rng, 4) as u32),
        _ => RValue::U32(rng.next_u64() as u32),
    }
}

fn gen_entry(rng: &mut Rng) -> REntry {
    if rng.chance(1, 10) {
        // the smallest entry the grammar allows (8 bytes on the wire: 77 01 01 01 01 01 01 01)
        return REntry { name: Hx(vec![]), status: None, val_time: None, unit: None, scaler: None, value: RValue::Bytes(Hx(vec![])), sig: None };
    }
    REntry {
        name: gen_oct(rng, 8),
        status: match rng.below(8) {
            0 => Some(RStatus::S8(gen_u(rng, 1) as u8)),
            1 => Some(RStatus::S16(gen_u(rng, 2) as u16)),
            2 => Some(RStatus::S32(gen_u(rng, 4) as u32)),
            3 => Some(RStatus::S64(gen_u(rng, 8))),
            _ => None,
        },
        val_time: if rng.chance(1, 4) { Some(gen_u(rng, 4) as u32) } else { None },
        unit: if rng.chance(1, 2) { Some(rng.byte()) } else { None },
        scaler: if rng.chance(1, 2) { Some(rng.byte() as i8) } else { None },
        value: gen_value(rng),
        sig: if rng.chance(1, 5) { Some(gen_oct(rng, 8)) } else { None },
    }
}

pub fn gen_msg(rng: &mut Rng, kind: usize, max_entries: usize) -> RMsg {
    let body = match kind {
        0 => RBody::Open {
            codepage: gen_opt_oct(rng, 8),
            client_id: gen_opt_oct(rng, 8),
            req_file_id: gen_oct(rng, 8),
            server_id: gen_oct(rng, 12),
            ref_time: if rng.chance(1, 2) { Some(gen_u(rng, 4) as u32) } else { None },
            version: if rng.chance(1, 2) { Some(rng.byte()) } else { None },
        },
        1 => RBody::Close {
            sig: gen_opt_oct(rng, 8),
        },
        _ => {
            let n = match rng.below(10) {
                0 => 0,
                1 => rng.range(14, 17),
                2 => rng.range(0, max_entries),
                _ => rng.range(1, 6.min(max_entries.max(1))),
            }
            .min(max_entries);
            RBody::GetList {
                client_id: gen_opt_oct(rng, 8),
                server_id: gen_oct(rng, 12),
                list_name: gen_opt_oct(rng, 8),
                sensor_time: if rng.chance(1, 2) { Some(gen_u(rng, 4) as u32) } else { None },
                entries: (0..n).map(|_| gen_entry(rng)).collect(),
                sig: gen_opt_oct(rng, 8),
                gateway_time: if rng.chance(1, 3) { Some(gen_u(rng, 4) as u32) } else { None },
            }
        }
    };
    RMsg {
        tid: gen_oct(rng, 8),
        group: rng.byte(),
        abort: rng.byte(),
        body,
    }
}

pub fn gen_rfile(rng: &mut Rng, max_entries: usize) -> RFile {
    if max_entries >= 12 && rng.chance(1, 400) {
        // counts that cross 2^8: a file of 255..258 messages, or a list with that many (small) entries ...
        // ... and, more rarely, 2^16 (which also makes the message / the file longer than 2^16 bytes)
        // (not in the unoptimised build of the simulator, where generating and cross-checking a
        // megabyte takes the better part of a minute)
        let big = rng.chance(1, 6) && !cfg!(debug_assertions);
        if rng.chance(1, 2) {
            // (a file of 2^16 messages is a megabyte that every oracle walks several times: the
            // message count only crosses 2^12 here, the long-run byte fault reaches further)
            let n = if big { rng.range(4_094, 4_098) } else { rng.range(255, 258) };
            return RFile { msgs: (0..n).map(|_| gen_msg(rng, 1, 0)).collect() };
        }
        let n = if big { rng.range(65_534, 65_538) } else { rng.range(255, 258) };
        let mut m = gen_msg(rng, 2, 0);
        if let RBody::GetList { entries, .. } = &mut m.body {
            *entries = (0..n)
                .map(|i| REntry { name: Hx(vec![(i % 251) as u8]), status: None, val_time: None, unit: None, scaler: None, value: RValue::U8((i % 256) as u8), sig: None })
                .collect();
        }
        return RFile { msgs: vec![gen_msg(rng, 0, 0), m, gen_msg(rng, 1, 0)] };
    }
    let msgs = match rng.below(6) {
        0 => vec![gen_msg(rng, 2, max_entries)],
        1 => {
            let n = rng.range(0, 4);
            (0..n).map(|_| { let k = rng.below(3); gen_msg(rng, k, max_entries) }).collect()
        }
        // the typical transmission: open, list, close
        _ => vec![gen_msg(rng, 0, max_entries), gen_msg(rng, 2, max_entries), gen_msg(rng, 1, max_entries)],
    };
    RFile { msgs }
}

// ---------------------------------------------------------------------------
// wire encoder with firmware-profile knobs
// ---------------------------------------------------------------------------

#[derive(Clone, Debug)]
pub struct Profile {
    /// probability (per cent) that a TLF gets 1-3 extra zero nibbles in front
    pub nonminimal: usize,
    /// Holley DTZ541 time encoding (bare u32) instead of the standard one
    pub holley: usize,
    /// integers: narrowest width of their class (false) or any width of the class
    pub any_width: bool,
    pub short_crc: bool,
}

impl Profile {
    pub fn draw(rng: &mut Rng) -> Profile {
        Profile {
            nonminimal: *rng.pick(&[0usize, 0, 5, 30]),
            holley: *rng.pick(&[0usize, 0, 50, 100]),
            any_width: rng.chance(1, 2),
            short_crc: rng.chance(1, 3),
        }
    }
    pub fn plain() -> Profile {
        Profile {
            nonminimal: 0,
            holley: 0,
            any_width: false,
            short_crc: false,
        }
    }
}

pub const TY_OCT: u8 = 0;
pub const TY_BOOL: u8 = 4;
pub const TY_INT: u8 = 5;
pub const TY_UINT: u8 = 6;
pub const TY_LIST: u8 = 7;

/// TLF with `nibbles` length nibbles declaring the raw value `v` (no own-size arithmetic)
pub fn tlf_raw(ty: u8, v: u128, nibbles: usize) -> Vec<u8> {
    let mut out = Vec::with_capacity(nibbles);
    for k in (0..nibbles).rev() {
        let nib = if 4 * k >= 128 { 0 } else { ((v >> (4 * k)) & 0xf) as u8 };
        let more = if k > 0 { 0x80 } else { 0 };
        if k + 1 == nibbles {
            out.push(more | (ty << 4) | nib);
        } else {
            out.push(more | nib);
        }
    }
    out
}

/// valid TLF for a value of `len` bytes (or `len` list elements), with `extra` zero nibbles in front
pub fn tlf(ty: u8, len: usize, extra: usize) -> Vec<u8> {
    if ty == TY_LIST {
        let mut k = 1;
        while (len as u128) >= (1u128 << (4 * k)) {
            k += 1;
        }
        tlf_raw(ty, len as u128, k + extra)
    } else {
        let mut k = 1;
        while ((len + k) as u128) >= (1u128 << (4 * k)) {
            k += 1;
        }
        let k = k + extra;
        tlf_raw(ty, (len + k) as u128, k)
    }
}

struct Enc<'a> {
    out: Vec<u8>,
    rng: &'a mut Rng,
    prof: &'a Profile,
}

impl<'a> Enc<'a> {
    fn extra(&mut self, ty: u8) -> usize {
        if ty != TY_BOOL && self.prof.nonminimal > 0 && self.rng.below(100) < self.prof.nonminimal {
            self.rng.range(1, 3)
        } else {
            0
        }
    }
    fn put_tlf(&mut self, ty: u8, len: usize) {
        let e = self.extra(ty);
        let t = tlf(ty, len, e);
        self.out.extend_from_slice(&t);
    }
    fn oct(&mut self, b: &[u8]) {
        // an empty octet string with the minimal TLF `01` would read as "absent" in optional
        // positions; callers use `oct_present` there
        self.put_tlf(TY_OCT, b.len());
        self.out.extend_from_slice(b);
    }
    fn oct_present(&mut self, b: &[u8]) {
        if b.is_empty() {
            let e = self.extra(TY_OCT).max(1);
            let t = tlf(TY_OCT, 0, e);
            self.out.extend_from_slice(&t);
        } else {
            self.oct(b);
        }
    }
    fn opt_oct(&mut self, o: &Option<Hx>) {
        match o {
            None => self.out.push(0x01),
            Some(b) => self.oct_present(b),
        }
    }
    /// unsigned of a width class [lo, hi]: narrowest width that holds the value within the class, or any
    fn uint(&mut self, v: u64, lo: usize, hi: usize) {
        let mut need = 1;
        while need < 8 && (v >> (8 * need)) != 0 {
            need += 1;
        }
        let min = need.max(lo);
        let w = if self.prof.any_width { self.rng.range(min, hi) } else { min };
        self.put_tlf(TY_UINT, w);
        self.out.extend_from_slice(&v.to_be_bytes()[8 - w..]);
    }
    fn sint(&mut self, v: i64, lo: usize, hi: usize) {
        let mut need = 1;
        while need < 8 {
            let shift = 64 - 8 * need as u32;
            if ((v << shift) >> shift) == v {
                break;
            }
            need += 1;
        }
        let min = need.max(lo);
        let w = if self.prof.any_width { self.rng.range(min, hi) } else { min };
        self.put_tlf(TY_INT, w);
        self.out.extend_from_slice(&v.to_be_bytes()[8 - w..]);
    }
    fn time(&mut self, t: u32) {
        if self.prof.holley > 0 && self.rng.below(100) < self.prof.holley {
            // bare u32: exactly `65 xx xx xx xx` (the workaround matches Unsigned/4 only)
            self.out.push(0x65);
            self.out.extend_from_slice(&t.to_be_bytes());
        } else {
            self.put_tlf(TY_LIST, 2);
            self.uint(1, 1, 1);
            self.uint(u64::from(t), 1, 4);
        }
    }
    fn opt_time(&mut self, t: &Option<u32>) {
        match t {
            None => self.out.push(0x01),
            Some(t) => self.time(*t),
        }
    }
    fn entry(&mut self, e: &REntry) {
        self.put_tlf(TY_LIST, 7);
        self.oct(&e.name);
        match &e.status {
            None => self.out.push(0x01),
            Some(RStatus::S8(v)) => self.uint(u64::from(*v), 1, 1),
            Some(RStatus::S16(v)) => self.uint(u64::from(*v), 2, 2),
            Some(RStatus::S32(v)) => self.uint(u64::from(*v), 3, 4),
            Some(RStatus::S64(v)) => self.uint(*v, 5, 8),
        }
        self.opt_time(&e.val_time);
        match e.unit {
            None => self.out.push(0x01),
            Some(u) => self.uint(u64::from(u), 1, 1),
        }
        match e.scaler {
            None => self.out.push(0x01),
            Some(s) => self.sint(i64::from(s), 1, 1),
        }
        match &e.value {
            RValue::Bool(b) => {
                self.out.push(0x42);
                let v = if *b { *self.rng.pick(&[0x01u8, 0xff, 0x80, 0x02]) } else { 0 };
                self.out.push(v);
            }
            RValue::Bytes(b) => self.oct(b),
            RValue::I8(v) => self.sint(i64::from(*v), 1, 1),
            RValue::I16(v) => self.sint(i64::from(*v), 2, 2),
            RValue::I32(v) => self.sint(i64::from(*v), 3, 4),
            RValue::I64(v) => self.sint(*v, 5, 8),
            RValue::U8(v) => self.uint(u64::from(*v), 1, 1),
            RValue::U16(v) => self.uint(u64::from(*v), 2, 2),
            RValue::U32(v) => self.uint(u64::from(*v), 3, 4),
            RValue::U64(v) => self.uint(*v, 5, 8),
            RValue::ListTime(t) => {
                self.put_tlf(TY_LIST, 2);
                self.uint(1, 1, 1);
                self.time(*t);
            }
        }
        self.opt_oct(&e.sig);
    }
    fn msg(&mut self, m: &RMsg) {
        self.put_tlf(TY_LIST, 6);
        self.oct(&m.tid);
        self.uint(u64::from(m.group), 1, 1);
        self.uint(u64::from(m.abort), 1, 1);
        self.put_tlf(TY_LIST, 2);
        match &m.body {
            RBody::Open {
                codepage,
                client_id,
                req_file_id,
                server_id,
                ref_time,
                version,
            } => {
                self.uint(0x0101, 2, 4);
                self.put_tlf(TY_LIST, 6);
                self.opt_oct(codepage);
                self.opt_oct(client_id);
                self.oct(req_file_id);
                self.oct(server_id);
                self.opt_time(ref_time);
                match version {
                    None => self.out.push(0x01),
                    Some(v) => self.uint(u64::from(*v), 1, 1),
                }
            }
            RBody::Close { sig } => {
                self.uint(0x0201, 2, 4);
                self.put_tlf(TY_LIST, 1);
                self.opt_oct(sig);
            }
            RBody::GetList {
                client_id,
                server_id,
                list_name,
                sensor_time,
                entries,
                sig,
                gateway_time,
            } => {
                self.uint(0x0701, 2, 4);
                self.put_tlf(TY_LIST, 7);
                self.opt_oct(client_id);
                self.oct(server_id);
                self.opt_oct(list_name);
                self.opt_time(sensor_time);
                self.put_tlf(TY_LIST, entries.len());
                for e in entries {
                    self.entry(e);
                }
                self.opt_oct(sig);
                self.opt_time(gateway_time);
            }
        }
    }
}

/// message bytes up to (excluding) the CRC field
pub fn encode_body(m: &RMsg, rng: &mut Rng, prof: &Profile) -> Vec<u8> {
    let mut e = Enc {
        out: Vec::new(),
        rng,
        prof,
    };
    e.msg(m);
    e.out
}

/// wire bytes of a whole file (valid), and the per-message bodies
pub fn encode_file(f: &RFile, rng: &mut Rng, prof: &Profile) -> (Vec<u8>, Vec<MsgScn>) {
    let mut msgs = Vec::new();
    let mut all = Vec::new();
    for m in &f.msgs {
        let body = encode_body(m, rng, prof);
        let ms = MsgScn {
            body: Hx(body),
            seal: if prof.short_crc { Seal::GoodShort } else { Seal::Good },
        };
        all.extend_from_slice(&crate::scn::seal_msg(&ms));
        msgs.push(ms);
    }
    (all, msgs)
}

/// generate an abstract file and its wire form; self-checked against the reference reader
/// Tweak the last two bytes of the transaction id until the message CRC is below 0x100, so that
/// the one-byte CRC field `62 xx` is a legal encoding (otherwise that path is reached for one
/// message in 256 only).
fn force_short_crc(m: &mut RMsg, ms: &mut MsgScn) -> bool {
    if ms.body.len() > 2048 {
        // the search recomputes the checksum of the whole message up to 65536 times
        return false;
    }
    let sites = walk_sites(&ms.body);
    let Some(tid) = sites.iter().find(|s| s.depth == 1) else { return false };
    if tid.ty != TY_OCT || tid.len < 2 || m.tid.len() != tid.len {
        return false;
    }
    let at = tid.end - 2;
    for v in 0..=0xffffu32 {
        ms.body.0[at] = (v >> 8) as u8;
        ms.body.0[at + 1] = v as u8;
        if crate::refenc::crc16_x25(&ms.body).swap_bytes() < 0x100 {
            let n = m.tid.len();
            m.tid.0[n - 2] = (v >> 8) as u8;
            m.tid.0[n - 1] = v as u8;
            ms.seal = Seal::GoodShort;
            return true;
        }
    }
    false
}

/// Same search, for an exact checksum value of a special shape (all zeros, all ones, a zero
/// high or low byte, escape look-alikes), kept in the ordinary two-byte field.
fn force_crc_value(m: &mut RMsg, ms: &mut MsgScn, target: u16) -> bool {
    if ms.body.len() > 2048 {
        // the search recomputes the checksum of the whole message up to 65536 times
        return false;
    }
    let sites = walk_sites(&ms.body);
    let Some(tid) = sites.iter().find(|s| s.depth == 1) else { return false };
    if tid.ty != TY_OCT || tid.len < 2 || m.tid.len() != tid.len {
        return false;
    }
    let at = tid.end - 2;
    let (o0, o1) = (ms.body.0[at], ms.body.0[at + 1]);
    for v in 0..=0xffffu32 {
        ms.body.0[at] = (v >> 8) as u8;
        ms.body.0[at + 1] = v as u8;
        if crate::refenc::crc16_x25(&ms.body).swap_bytes() == target {
            let n = m.tid.len();
            m.tid.0[n - 2] = (v >> 8) as u8;
            m.tid.0[n - 1] = v as u8;
            return true;
        }
    }
    ms.body.0[at] = o0;
    ms.body.0[at + 1] = o1;
    false
}

pub const SPECIAL_CRCS: [u16; 10] = [0x0000, 0xffff, 0x00ff, 0xff00, 0x0100, 0x0001, 0x1b1b, 0x0076, 0x7600, 0x8000];

pub fn gen_valid(rng: &mut Rng, max_entries: usize) -> (RFile, Vec<u8>, Vec<MsgScn>) {
    let mut f = gen_rfile(rng, max_entries);
    let prof = Profile::draw(rng);
    let (mut bytes, mut msgs) = encode_file(&f, rng, &prof);
    if rng.chance(1, 6) {
        for (m, ms) in f.msgs.iter_mut().zip(msgs.iter_mut()) {
            match rng.below(4) {
                0 | 1 => {
                    force_short_crc(m, ms);
                }
                2 => {
                    let t = *rng.pick(&SPECIAL_CRCS);
                    force_crc_value(m, ms, t);
                }
                _ => {}
            }
        }
        bytes.clear();
        for ms in &msgs {
            bytes.extend_from_slice(&crate::scn::seal_msg(ms));
        }
    }
    match ref_read(&bytes) {
        Ok(t) if t == f => {}
        other => panic!(
            "HARNESS: wire encoder and reference reader disagree on a generated file: {:?} (profile {:?}) bytes {}",
            other.map(|_| "different tree"),
            prof,
            crate::hexbytes::hex(&bytes)
        ),
    }
    (f, bytes, msgs)
}

// ---------------------------------------------------------------------------
// tolerant TLF walker: positions of the TLFs in well-formed bytes
// ---------------------------------------------------------------------------

#[derive(Clone, Debug)]
pub struct Site {
    pub off: usize,
    pub tlf_size: usize,
    pub ty: u8,
    /// end of the whole field (TLF + value bytes, or all list elements)
    pub end: usize,
    pub depth: usize,
    /// value length (non-list) or element count (list)
    pub len: usize,
}

fn walk(b: &[u8], p: &mut usize, depth: usize, out: &mut Vec<Site>) -> bool {
    if *p >= b.len() || depth > 12 {
        return false;
    }
    let off = *p;
    let b0 = b[*p];
    *p += 1;
    let ty = (b0 >> 4) & 7;
    let mut more = b0 & 0x80 != 0;
    let mut v: u64 = u64::from(b0 & 0xf);
    let mut size = 1usize;
    while more {
        if *p >= b.len() || size > 8 {
            return false;
        }
        let x = b[*p];
        *p += 1;
        size += 1;
        v = v * 16 + u64::from(x & 0xf);
        more = x & 0x80 != 0;
    }
    let idx = out.len();
    if ty == TY_LIST {
        out.push(Site { off, tlf_size: size, ty, end: 0, depth, len: v as usize });
        for _ in 0..v {
            if !walk(b, p, depth + 1, out) {
                out[idx].end = *p;
                return false;
            }
        }
        out[idx].end = *p;
        true
    } else {
        if b0 == 0x00 {
            // end-of-message marker, not a field
            *p = off;
            return false;
        }
        let len = (v as usize).saturating_sub(size);
        if *p + len > b.len() {
            return false;
        }
        *p += len;
        out.push(Site { off, tlf_size: size, ty, end: *p, depth, len });
        true
    }
}

/// sites of one message body (bytes before the CRC field)
pub fn walk_sites(body: &[u8]) -> Vec<Site> {
    let mut out = Vec::new();
    let mut p = 0;
    // a body is the message list TLF followed by four complete fields
    if body.is_empty() {
        return out;
    }
    let b0 = body[0];
    if (b0 >> 4) & 7 == TY_LIST {
        let mut size = 1;
        let mut more = b0 & 0x80 != 0;
        p = 1;
        while more && p < body.len() {
            more = body[p] & 0x80 != 0;
            p += 1;
            size += 1;
        }
        out.push(Site { off: 0, tlf_size: size, ty: TY_LIST, end: body.len(), depth: 0, len: 6 });
        while p < body.len() {
            if !walk(body, &mut p, 1, &mut out) {
                break;
            }
        }
    }
    out
}

/// split a valid file into message bodies (bytes before each CRC field); None if not well-formed
pub fn split_messages(x: &[u8]) -> Option<Vec<Vec<u8>>> {
    let mut p = 0;
    let mut v = Vec::new();
    while p < x.len() {
        let start = p;
        // message TLF: list of 6
        let mut sites = Vec::new();
        let b0 = x[p];
        if (b0 >> 4) & 7 != TY_LIST || b0 & 0x8f != 6 {
            return None;
        }
        p += 1;
        for _ in 0..4 {
            if !walk(x, &mut p, 1, &mut sites) {
                return None;
            }
        }
        let crc_at = p;
        if !walk(x, &mut p, 1, &mut sites) {
            return None;
        }
        if p >= x.len() || x[p] != 0 {
            return None;
        }
        p += 1;
        v.push(x[start..crc_at].to_vec());
    }
    Some(v)
}

// ---------------------------------------------------------------------------
// corpus of real meter transmissions
// ---------------------------------------------------------------------------

/// message bodies of every transmission in /repo/tests/libsml-testing/*.bin that the
/// reference reader accepts (empty if the directory is absent)
pub fn corpus() -> &'static Vec<Vec<Vec<u8>>> {
    static C: OnceLock<Vec<Vec<Vec<u8>>>> = OnceLock::new();
    C.get_or_init(|| {
        let mut files = Vec::new();
        let dir = std::path::Path::new("/repo/tests/libsml-testing");
        let mut names: Vec<_> = match std::fs::read_dir(dir) {
            Ok(rd) => rd.flatten().map(|e| e.path()).filter(|p| p.extension().map(|e| e == "bin").unwrap_or(false)).collect(),
            Err(_) => Vec::new(),
        };
        names.sort();
        for n in names {
            if let Ok(bytes) = std::fs::read(&n) {
                for r in crate::refenc::ref_extract(&bytes).into_iter().take(2) {
                    if ref_read(&r).is_ok() {
                        if let Some(bodies) = split_messages(&r) {
                            files.push(bodies);
                        }
                    }
                }
            }
        }
        files
    })
}

// ---------------------------------------------------------------------------
// Byzantine mutations of a message body (applied before sealing => CRC re-sealed)
// ---------------------------------------------------------------------------

pub const INFLATE_VALUES: [u128; 45] = [
    0x2000_0000,
    0x2000_0001,
    0x4000_0000,
    0x4000_0001,
    0x6000_0000,
    0xc000_0003,
    0xe000_0000,
    0x0800_0000,
    0x1000_0000,
    0x1fff_ffff,
    0x0200_0002,
    0x0040_0000,
    (1u128 << 64) | 6,
    (1u128 << 68) | 3,
    (0xau128 << 64) | 0x10,
    (1u128 << 96) | 7,
    (0xffu128 << 72) | 2,
    0x10,
    0x103,
    0x104,
    0x107,
    0x1_0004,
    0x1_0006,
    0x100_0005,
    0xff,
    0x100,
    0xffff,
    0x1_0000,
    0xff_ffff,
    0x100_0000,
    0x7fff_ffff,
    0x8000_0000,
    0xffff_fff0,
    0xffff_fffd,
    0xffff_fffe,
    0xffff_ffff,
    0x1_0000_0000,
    0x1_0000_0001,
    0x1_0000_0007,
    0x1_0000_000c,
    0x2_0000_0002,
    0x10_0000_0006,
    0xffff_ffff_f,
    0x1000_0000_0000_0002,
    0xffff_ffff_ffff_ffff_ffff,
];

pub const STRUCT_OPS: &[&str] = &[
    "inflate-tlf",
    "delete-field",
    "duplicate-field",
    "type-nibble",
    "arity+1",
    "arity-1",
    "tag",
    "bitflip",
    "byte-set",
    "truncate-body",
    "insert-junk",
    "wrap-length",
    "rewidth",
    "substitute-field",
    "long-field",
    "wide-tlf",
    "tag-high-bits",
    "hollow-list",
];

/// apply one structural mutation; returns its name (None if nothing could be done)
pub fn mutate_body(rng: &mut Rng, body: &mut Vec<u8>, op: &str) -> Option<String> {
    let sites = walk_sites(body);
    if sites.is_empty() || body.is_empty() {
        return None;
    }
    let pick_site = |rng: &mut Rng, pred: &dyn Fn(&Site) -> bool| -> Option<Site> {
        let c: Vec<&Site> = sites.iter().filter(|s| pred(s)).collect();
        if c.is_empty() {
            None
        } else {
            Some((*rng.pick(&c)).clone())
        }
    };
    match op {
        "inflate-tlf" => {
            let s = pick_site(rng, &|_| true)?;
            let v = *rng.pick(&INFLATE_VALUES);
            let mut nib = 1;
            while nib < 32 && (v >> (4 * nib)) != 0 {
                nib += 1;
            }
            nib += rng.below(3);
            let t = tlf_raw(s.ty, v, nib);
            body.splice(s.off..s.off + s.tlf_size, t);
            Some(format!("inflate-tlf(ty={},off={},v={:#x},nibbles={})", s.ty, s.off, v, nib))
        }
        "wrap-length" => {
            // a length >= 2^32 that wraps (mod 2^32) to exactly the original value
            let s = pick_site(rng, &|s| s.off > 0)?;
            // the excess sits above bit 32 (9-12 nibbles) or above bit 64 (17-24 nibbles): wider
            // accumulators wrap at other places
            let (nib, shift) = if rng.chance(2, 3) { (rng.range(9, 12), 32) } else { (rng.range(17, 24), 64) };
            let orig: u128 = if s.ty == TY_LIST { s.len as u128 } else { (s.len + nib) as u128 };
            let hi: u128 = (rng.range(1, 15) as u128) << shift;
            let t = tlf_raw(s.ty, hi | (orig & 0xffff_ffff), nib.max(shift / 4 + 1));
            body.splice(s.off..s.off + s.tlf_size, t);
            Some(format!("wrap-length(ty={},off={},nibbles={})", s.ty, s.off, nib))
        }
        "delete-field" => {
            let s = pick_site(rng, &|s| s.depth >= 1)?;
            body.drain(s.off..s.end);
            Some(format!("delete-field(off={},len={})", s.off, s.end - s.off))
        }
        "duplicate-field" => {
            let s = pick_site(rng, &|s| s.depth >= 1 && s.end - s.off <= 64)?;
            let f = body[s.off..s.end].to_vec();
            body.splice(s.end..s.end, f);
            Some(format!("duplicate-field(off={})", s.off))
        }
        "type-nibble" => {
            let s = pick_site(rng, &|_| true)?;
            let nt = *rng.pick(&[0u8, 1, 2, 3, 4, 5, 6, 7]);
            body[s.off] = (body[s.off] & 0x8f) | (nt << 4);
            Some(format!("type-nibble(off={},ty={})", s.off, nt))
        }
        "arity+1" | "arity-1" => {
            let s = pick_site(rng, &|s| s.ty == TY_LIST && s.tlf_size == 1)?;
            let n = body[s.off] & 0x0f;
            let nn = if op == "arity+1" { n.wrapping_add(1) & 0x0f } else { n.wrapping_sub(1) & 0x0f };
            body[s.off] = (body[s.off] & 0xf0) | nn;
            Some(format!("{}(off={})", op, s.off))
        }
        "tag" => {
            // the byte(s) after a list-of-2 TLF hold a tag
            let s = pick_site(rng, &|s| s.ty == TY_LIST && s.len == 2)?;
            let at = s.off + s.tlf_size + 1;
            if at + 1 < body.len() {
                let which = at + rng.below(2);
                body[which] = *rng.pick(&[0x00u8, 0x02, 0x03, 0x05, 0x07, 0xff]);
                Some(format!("tag(off={})", which))
            } else {
                None
            }
        }
        "bitflip" => {
            let at = if rng.chance(1, 2) { pick_site(rng, &|_| true)?.off } else { rng.below(body.len()) };
            let bit = rng.below(8);
            body[at] ^= 1 << bit;
            Some(format!("bitflip(off={},bit={})", at, bit))
        }
        "byte-set" => {
            let at = rng.below(body.len());
            body[at] = *rng.pick(&[0x00u8, 0x01, 0x62, 0x63, 0x65, 0x72, 0x76, 0x77, 0x80, 0xff]);
            Some(format!("byte-set(off={})", at))
        }
        "hollow-list" => {
            // a list that declares a count just below a power of two (or any other inflated
            // value) and contains *nothing*: either only its elements are removed, or the
            // message ends right behind the list's TLF.  A countdown that is kept in a narrower
            // type, or that has a constant added to it, wraps onto "nothing more to read".
            let c: Vec<&Site> = sites.iter().filter(|s| s.ty == TY_LIST && s.depth >= 1).collect();
            if c.is_empty() {
                return None;
            }
            // biased towards the lists that span most of the message (body, response, value list)
            let w: Vec<usize> = c.iter().map(|s| 1 + (s.end - s.off)).collect();
            let s = c[rng.weighted(&w)].clone();
            let v: u128 = if rng.chance(3, 4) {
                let width = *rng.pick(&[8u32, 16, 32, 32, 32, 64]);
                (1u128 << width) - rng.range(1, 3) as u128
            } else {
                *rng.pick(&INFLATE_VALUES)
            };
            let mut nib = 1;
            while nib < 32 && (v >> (4 * nib)) != 0 {
                nib += 1;
            }
            let t = tlf_raw(TY_LIST, v, nib);
            let cut = rng.chance(1, 2);
            if cut {
                body.truncate(s.off);
                body.extend_from_slice(&t);
            } else {
                body.splice(s.off..s.end, t);
            }
            Some(format!("hollow-list(off={},v={:#x},{})", s.off, v, if cut { "message ends behind the count" } else { "elements removed" }))
        }
        "truncate-body" => {
            let at = rng.below(body.len());
            body.truncate(at);
            Some(format!("truncate-body(at={})", at))
        }
        "rewidth" => {
            // re-encode an integer field with another width (1..=8 value bytes): stays inside its
            // width class, changes class, or becomes an over-long / shortened encoding
            let s = pick_site(rng, &|s| (s.ty == TY_INT || s.ty == TY_UINT) && s.len >= 1 && s.len <= 8)?;
            let old: Vec<u8> = body[s.off + s.tlf_size..s.end].to_vec();
            let w = rng.range(1, 8);
            let mut val = vec![if s.ty == TY_INT && old[0] > 0x7f { 0xff } else { 0x00 }; w];
            for (i, b) in old.iter().rev().enumerate() {
                if i < w {
                    val[w - 1 - i] = *b;
                }
            }
            let mut f = tlf(s.ty, w, if rng.chance(1, 5) { 1 } else { 0 });
            f.extend_from_slice(&val);
            body.splice(s.off..s.end, f);
            Some(format!("rewidth(ty={},off={},{}->{})", s.ty, s.off, old.len(), w))
        }
        "substitute-field" => {
            // replace a whole field by a well-formed field of (possibly) another type
            let s = pick_site(rng, &|s| s.depth >= 1)?;
            let f: Vec<u8> = match rng.below(8) {
                0 => vec![0x01],
                1 => vec![0x42, rng.byte()],
                2 => {
                    let w = rng.range(1, 8);
                    let mut f = tlf(TY_UINT, w, 0);
                    f.extend_from_slice(&rng.bytes(w));
                    f
                }
                3 => {
                    let w = rng.range(1, 8);
                    let mut f = tlf(TY_INT, w, 0);
                    f.extend_from_slice(&rng.bytes(w));
                    f
                }
                4 => {
                    let w = rng.range(0, 20);
                    let mut f = tlf(TY_OCT, w, 0);
                    f.extend_from_slice(&rng.bytes(w));
                    f
                }
                5 => vec![0x72, 0x62, 0x01, 0x65, rng.byte(), rng.byte(), rng.byte(), rng.byte()],
                6 => vec![0x65, rng.byte(), rng.byte(), rng.byte(), rng.byte()],
                _ => vec![0x70 | rng.below(8) as u8],
            };
            let desc = crate::hexbytes::hex(&f[..f.len().min(4)]);
            body.splice(s.off..s.end, f);
            Some(format!("substitute-field(off={},new={}..)", s.off, desc))
        }
        "long-field" => {
            // a primitive field that really is L bytes long (L around 2^8 / 2^16): the declared
            // length is honest, only unusually large
            let s = pick_site(rng, &|s| s.ty != TY_LIST && s.depth >= 1)?;
            let l = *rng.pick(&[255usize, 256, 257, 258, 259, 260, 261, 262, 263, 264, 511, 512, 513, 65_535, 65_536, 65_537, 65_540]);
            let mut f = tlf(s.ty, l, 0);
            let fill = *rng.pick(&[0x00u8, 0x41, 0xff]);
            f.extend(std::iter::repeat(fill).take(l));
            body.splice(s.off..s.end, f);
            Some(format!("long-field(ty={},off={},len={})", s.ty, s.off, l))
        }
        "wide-tlf" => {
            // the same declared value, written with hundreds of leading zero nibbles: legal for the
            // grammar, but every counter of TLF bytes has to survive it
            let s = pick_site(rng, &|_| true)?;
            let extra = *rng.pick(&[250usize, 253, 254, 255, 256, 257, 300, 1000, 65_534, 65_535, 65_536, 65_540]);
            let t = tlf(s.ty, s.len, extra);
            body.splice(s.off..s.off + s.tlf_size, t);
            Some(format!("wide-tlf(ty={},off={},extra-nibbles={})", s.ty, s.off, extra))
        }
        "tag-high-bits" => {
            // a choice tag (message body, time, list type) re-encoded wider, with garbage above the
            // bits that carry the known tag value
            let s = pick_site(rng, &|s| s.ty == TY_LIST && s.len == 2 && s.tlf_size == 1)?;
            let at = s.off + 1;
            if at >= body.len() || (body[at] >> 4) != TY_UINT || body[at] & 0x80 != 0 {
                return None;
            }
            let w = (body[at] & 0x0f) as usize;
            if w < 2 || w > 5 || at + w > body.len() {
                return None;
            }
            let val: Vec<u8> = body[at + 1..at + w].to_vec();
            let nw = rng.range(val.len() + 1, 8);
            let mut f = tlf(TY_UINT, nw, 0);
            for i in 0..nw - val.len() {
                f.push(if i == 0 || rng.chance(1, 2) { rng.range(1, 255) as u8 } else { 0 });
            }
            f.extend_from_slice(&val);
            body.splice(at..at + w, f);
            Some(format!("tag-high-bits(off={},{}->{})", at, val.len(), nw))
        }
        "insert-junk" => {
            let at = rng.below(body.len() + 1);
            let n = rng.range(1, 4);
            let j = rng.bytes(n);
            body.splice(at..at, j);
            Some(format!("insert-junk(at={},n={})", at, n))
        }
        _ => None,
    }
}

#[derive(Clone, Debug)]
pub struct Emphasis {
    /// weights over STRUCT_OPS
    pub ops: [usize; 18],
    /// per cent of runs that stay valid (no mutation at all)
    pub valid: usize,
    /// per cent of mutated runs that also get un-resealed byte faults
    pub post: usize,
    pub max_entries: usize,
}

impl Emphasis {
    pub fn balanced() -> Emphasis {
        Emphasis {
            ops: [6, 4, 4, 4, 3, 3, 3, 6, 4, 4, 3, 3, 4, 5, 2, 1, 3, 3],
            valid: 15,
            post: 35,
            max_entries: 40,
        }
    }
    pub fn inflation() -> Emphasis {
        Emphasis {
            ops: [30, 1, 1, 1, 1, 1, 1, 2, 1, 1, 1, 10, 2, 2, 8, 6, 1, 10],
            valid: 5,
            post: 10,
            max_entries: 20,
        }
    }
    pub fn mid_message() -> Emphasis {
        Emphasis {
            ops: [6, 4, 3, 4, 3, 3, 3, 8, 4, 6, 3, 3, 3, 4, 1, 1, 2, 3],
            valid: 10,
            post: 50,
            max_entries: 12,
        }
    }
}

/// the Byzantine meter: a valid file (generated or from the corpus), structural
/// mutations with re-sealed CRC, seal faults, and un-resealed byte faults
pub fn gen_file_scn(rng: &mut Rng, _tier: Tier, prop: &str, em: &Emphasis) -> FileScn {
    let mut notes = Vec::new();
    let from_corpus = !corpus().is_empty() && rng.chance(1, 5);
    let mut msgs: Vec<MsgScn> = if from_corpus {
        let c = corpus();
        let f = &c[rng.below(c.len())];
        notes.push("base:corpus".to_string());
        f.iter().map(|b| MsgScn { body: Hx(b.clone()), seal: Seal::Good }).collect()
    } else {
        notes.push("base:generated".to_string());
        gen_valid(rng, em.max_entries).2
    };
    let mut sub = "valid";
    if rng.below(100) >= em.valid && !msgs.is_empty() {
        sub = "resealed";
        let nops = *rng.pick(&[1usize, 1, 1, 2, 3]);
        for _ in 0..nops {
            let mi = rng.below(msgs.len());
            // faults biased into list responses (the messages with in-flight state)
            let mi = if rng.chance(1, 2) {
                msgs.iter().position(|m| m.body.len() > 40).unwrap_or(mi)
            } else {
                mi
            };
            let op = STRUCT_OPS[rng.weighted(&em.ops)];
            let mut b = msgs[mi].body.0.clone();
            if let Some(n) = mutate_body(rng, &mut b, op) {
                msgs[mi].body = Hx(b);
                if op == "hollow-list" && rng.chance(1, 3) {
                    // ... and the checksum and end marker are missing as well
                    msgs[mi].seal = Seal::None;
                    notes.push(format!("msg{}:seal=None", mi));
                }
                notes.push(format!("msg{}:{}", mi, n));
            }
        }
        if rng.chance(1, 6) {
            let mi = rng.below(msgs.len());
            msgs[mi].seal = match rng.below(9) {
                5 | 6 => Seal::TruncCrc(rng.below(2) as u8),
                7 | 8 => Seal::BadCrcWrongEnd(rng.range(1, 0xffff) as u16, *rng.pick(&[0x01u8, 0x76, 0xff, 0x1b])),
                0 => Seal::BadCrc(rng.range(1, 0xffff) as u16),
                1 => Seal::WrongEnd(*rng.pick(&[0x01u8, 0x76, 0xff])),
                2 => Seal::NoEnd,
                3 => Seal::None,
                _ => Seal::GoodShort,
            };
            notes.push(format!("msg{}:seal={:?}", mi, msgs[mi].seal));
            sub = "seal-fault";
        }
    }
    let mut post = Vec::new();
    // the unoptimised build exists to find recursion that grows with the input: there a third of
    // the files get a long run (the optimised build: one in twelve of those with byte faults)
    let want_run = cfg!(debug_assertions) && rng.chance(1, 3);
    if sub != "valid" && rng.below(100) < em.post || (sub == "valid" && rng.chance(1, 3)) || want_run {
        let total: usize = msgs.iter().map(|m| m.body.len() + 4).sum();
        let n = if want_run && rng.chance(1, 2) { 0 } else { *rng.pick(&[1usize, 1, 2, 3]) };
        for _ in 0..n {
            let at = rng.below(total.max(1));
            post.push(match rng.below(8) {
                0 | 1 => ByteOp::Flip { at, bit: rng.below(8) as u8 },
                2 => ByteOp::Set { at, val: *rng.pick(&[0x00u8, 0x01, 0xff, 0x76, 0x77]) },
                3 => ByteOp::Truncate { at },
                4 => ByteOp::Append(Hx(match rng.below(4) {
                    0 => vec![0x00],
                    1 => rng.bytes_range(1, 6),
                    2 => vec![0x1b, 0x1b, 0x1b, 0x1b],
                    _ => {
                        // trailing extension with another (valid) message
                        let m = gen_msg(rng, 1, 0);
                        let b = encode_body(&m, rng, &Profile::plain());
                        crate::scn::seal_msg(&MsgScn { body: Hx(b), seal: Seal::Good })
                    }
                })),
                5 => ByteOp::Delete { at, len: rng.range(1, 6) },
                6 => ByteOp::Insert { at, bytes: Hx(rng.bytes_range(1, 4)) },
                _ => ByteOp::Truncate { at: total.saturating_sub(rng.range(1, 4)) },
            });
        }
        if rng.chance(1, 12) || want_run {
            // a long run of one byte value (or of a short pattern) at a message boundary or anywhere:
            // whatever the parsers do per byte, they do it thousands of times
            let pattern: Vec<u8> = match rng.below(8) {
                0 | 1 => vec![0x00],
                2 => vec![0x01],
                3 => vec![0x1b],
                4 => vec![*rng.pick(&[0x71u8, 0x72, 0x76, 0x77, 0x7f, 0xf1])],
                5 => vec![0x00, 0x00, 0x63, 0x00],
                6 => rng.bytes_range(1, 3),
                _ => {
                    // a small *valid* message (close response): the run is hundreds or thousands of
                    // well-formed messages - whatever is done once per message adds up
                    let tid = rng.bytes_range(0, 3);
                    let mut b = vec![0x76, 0x01 + tid.len() as u8];
                    b.extend_from_slice(&tid);
                    b.extend_from_slice(&[0x62, 0x00, 0x62, 0x00, 0x72, 0x63, 0x02, 0x01, 0x71, 0x01]);
                    crate::scn::seal_msg(&MsgScn { body: Hx(b), seal: Seal::Good })
                }
            };
            let count = *rng.pick(&[40usize, 300, 1200, 6000, 6000, 20_000, 70_000]) / pattern.len().max(1) + 1;
            let at = match rng.below(4) {
                0 => None,
                1 => Some(0),
                2 => {
                    // a message boundary
                    let k = rng.below(msgs.len() + 1);
                    Some(msgs.iter().take(k).map(|m| crate::scn::seal_msg(m).len()).sum())
                }
                _ => Some(rng.below(total.max(1))),
            };
            post.push(ByteOp::Run { at, pattern: Hx(pattern), count });
        }
        if sub == "valid" {
            sub = "byte-faults";
        } else {
            sub = "resealed+byte-faults";
        }
    }
    FileScn {
        prop: prop.into(),
        sub: sub.into(),
        msgs,
        post,
        extra_polls: *rng.pick(&[0usize, 1, 2, 5, 64, 64, 300]),
        notes,
    }
}
