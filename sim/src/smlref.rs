//! Reference SML reader (DESIGN §5.1): an independent reading of the supported
//! SML subset, cursor based, all length arithmetic in u64.  Produces `RFile`
//! or `Reject`.  sml-rs results are converted into the same `RFile` for
//! comparison.

use crate::hexbytes::Hx;
use crate::refenc::crc16_x25;
use serde::{Deserialize, Serialize};

#[derive(Clone, PartialEq, Eq, Debug, Hash, Serialize, Deserialize, Default)]
pub struct RFile {
    pub msgs: Vec<RMsg>,
}

#[derive(Clone, PartialEq, Eq, Debug, Hash, Serialize, Deserialize)]
pub struct RMsg {
    pub tid: Hx,
    pub group: u8,
    pub abort: u8,
    pub body: RBody,
}

#[derive(Clone, PartialEq, Eq, Debug, Hash, Serialize, Deserialize)]
pub enum RBody {
    Open {
        codepage: Option<Hx>,
        client_id: Option<Hx>,
        req_file_id: Hx,
        server_id: Hx,
        ref_time: Option<u32>,
        version: Option<u8>,
    },
    Close {
        sig: Option<Hx>,
    },
    GetList {
        client_id: Option<Hx>,
        server_id: Hx,
        list_name: Option<Hx>,
        sensor_time: Option<u32>,
        entries: Vec<REntry>,
        sig: Option<Hx>,
        gateway_time: Option<u32>,
    },
}

#[derive(Clone, PartialEq, Eq, Debug, Hash, Serialize, Deserialize)]
pub struct REntry {
    pub name: Hx,
    pub status: Option<RStatus>,
    pub val_time: Option<u32>,
    pub unit: Option<u8>,
    pub scaler: Option<i8>,
    pub value: RValue,
    pub sig: Option<Hx>,
}

#[derive(Clone, PartialEq, Eq, Debug, Hash, Serialize, Deserialize)]
pub enum RStatus {
    S8(u8),
    S16(u16),
    S32(u32),
    S64(u64),
}

#[derive(Clone, PartialEq, Eq, Debug, Hash, Serialize, Deserialize)]
pub enum RValue {
    Bool(bool),
    Bytes(Hx),
    I8(i8),
    I16(i16),
    I32(i32),
    I64(i64),
    U8(u8),
    U16(u16),
    U32(u32),
    U64(u64),
    ListTime(u32),
}

#[derive(Clone, PartialEq, Eq, Debug)]
pub struct Reject(pub &'static str);

type R<T> = Result<T, Reject>;

struct Cur<'a> {
    b: &'a [u8],
    p: usize,
}

#[derive(Clone, Copy, PartialEq, Eq, Debug)]
enum Ty {
    Oct,
    Bool,
    Int,
    Uint,
    List,
}

struct Tlf {
    ty: Ty,
    /// list: element count; otherwise: number of value bytes
    len: u64,
}

impl<'a> Cur<'a> {
    fn peek(&self) -> Option<u8> {
        self.b.get(self.p).copied()
    }
    fn take1(&mut self) -> R<u8> {
        let x = self.peek().ok_or(Reject("eof"))?;
        self.p += 1;
        Ok(x)
    }
    fn take(&mut self, n: u64) -> R<&'a [u8]> {
        let rem = (self.b.len() - self.p) as u64;
        if n > rem {
            return Err(Reject("eof"));
        }
        let s = &self.b[self.p..self.p + n as usize];
        self.p += n as usize;
        Ok(s)
    }
    fn eof(&self) -> bool {
        self.p >= self.b.len()
    }

    fn tlf(&mut self) -> R<Tlf> {
        let b0 = self.take1()?;
        let ty = match (b0 >> 4) & 7 {
            0 => Ty::Oct,
            4 => Ty::Bool,
            5 => Ty::Int,
            6 => Ty::Uint,
            7 => Ty::List,
            _ => return Err(Reject("tlf type")),
        };
        let mut more = b0 & 0x80 != 0;
        if ty == Ty::Bool && more {
            return Err(Reject("tlf reserved"));
        }
        let mut v: u64 = u64::from(b0 & 0x0f);
        let mut size: u64 = 1;
        while more {
            let b = self.take1()?;
            size += 1;
            if (b >> 4) & 7 != 0 {
                return Err(Reject("tlf continuation type bits"));
            }
            v = v * 16 + u64::from(b & 0x0f);
            if v >= (1u64 << 32) {
                return Err(Reject("tlf length does not fit 32 bits"));
            }
            more = b & 0x80 != 0;
        }
        if ty == Ty::List {
            Ok(Tlf { ty, len: v })
        } else {
            if v < size {
                return Err(Reject("tlf length underflow"));
            }
            Ok(Tlf { ty, len: v - size })
        }
    }

    fn list(&mut self, n: u64) -> R<()> {
        let t = self.tlf()?;
        if t.ty != Ty::List || t.len != n {
            return Err(Reject("list arity"));
        }
        Ok(())
    }

    fn oct(&mut self) -> R<Hx> {
        let t = self.tlf()?;
        if t.ty != Ty::Oct {
            return Err(Reject("expected octet string"));
        }
        Ok(Hx(self.take(t.len)?.to_vec()))
    }

    fn absent(&mut self) -> bool {
        if self.peek() == Some(0x01) {
            self.p += 1;
            true
        } else {
            false
        }
    }

    fn opt_oct(&mut self) -> R<Option<Hx>> {
        if self.absent() {
            Ok(None)
        } else {
            Ok(Some(self.oct()?))
        }
    }

    fn be(&mut self, n: u64) -> R<u64> {
        let s = self.take(n)?;
        let mut v = 0u64;
        for b in s {
            v = (v << 8) | u64::from(*b);
        }
        Ok(v)
    }

    /// unsigned with 1 <= len <= max
    fn uint(&mut self, max: u64) -> R<u64> {
        let t = self.tlf()?;
        if t.ty != Ty::Uint || t.len == 0 || t.len > max {
            return Err(Reject("expected unsigned"));
        }
        self.be(t.len)
    }

    fn sint_of(&mut self, len: u64) -> R<i64> {
        let raw = self.be(len)?;
        let shift = 64 - 8 * len as u32;
        Ok(((raw << shift) as i64) >> shift)
    }

    fn time(&mut self) -> R<u32> {
        let t = self.tlf()?;
        match t.ty {
            Ty::List if t.len == 2 => {
                let tag = self.uint(1)?;
                if tag != 1 {
                    return Err(Reject("time tag"));
                }
                Ok(self.uint(4)? as u32)
            }
            // documented workaround (Holley DTZ541): bare u32
            Ty::Uint if t.len == 4 => Ok(self.be(4)? as u32),
            _ => Err(Reject("expected time")),
        }
    }

    fn opt_time(&mut self) -> R<Option<u32>> {
        if self.absent() {
            Ok(None)
        } else {
            Ok(Some(self.time()?))
        }
    }

    fn status(&mut self) -> R<RStatus> {
        let t = self.tlf()?;
        if t.ty != Ty::Uint {
            return Err(Reject("status type"));
        }
        let v = match t.len {
            1 => RStatus::S8(self.be(1)? as u8),
            2 => RStatus::S16(self.be(2)? as u16),
            3..=4 => RStatus::S32(self.be(t.len)? as u32),
            5..=8 => RStatus::S64(self.be(t.len)?),
            _ => return Err(Reject("status width")),
        };
        Ok(v)
    }

    fn value(&mut self) -> R<RValue> {
        let t = self.tlf()?;
        Ok(match (t.ty, t.len) {
            (Ty::Bool, 1) => RValue::Bool(self.take1()? != 0),
            (Ty::Oct, n) => RValue::Bytes(Hx(self.take(n)?.to_vec())),
            (Ty::Int, 1) => RValue::I8(self.sint_of(1)? as i8),
            (Ty::Int, 2) => RValue::I16(self.sint_of(2)? as i16),
            (Ty::Int, n @ 3..=4) => RValue::I32(self.sint_of(n)? as i32),
            (Ty::Int, n @ 5..=8) => RValue::I64(self.sint_of(n)?),
            (Ty::Uint, 1) => RValue::U8(self.be(1)? as u8),
            (Ty::Uint, 2) => RValue::U16(self.be(2)? as u16),
            (Ty::Uint, n @ 3..=4) => RValue::U32(self.be(n)? as u32),
            (Ty::Uint, n @ 5..=8) => RValue::U64(self.be(n)?),
            (Ty::List, 2) => {
                let tag = self.uint(1)?;
                if tag != 1 {
                    return Err(Reject("list type tag"));
                }
                RValue::ListTime(self.time()?)
            }
            _ => return Err(Reject("value type")),
        })
    }

    fn entry(&mut self) -> R<REntry> {
        self.list(7)?;
        let name = self.oct()?;
        let status = if self.absent() {
            None
        } else {
            Some(self.status()?)
        };
        let val_time = self.opt_time()?;
        let unit = if self.absent() {
            None
        } else {
            Some(self.uint(1)? as u8)
        };
        let scaler = if self.absent() {
            None
        } else {
            let t = self.tlf()?;
            if t.ty != Ty::Int || t.len != 1 {
                return Err(Reject("scaler"));
            }
            Some(self.sint_of(1)? as i8)
        };
        let value = self.value()?;
        let sig = self.opt_oct()?;
        Ok(REntry {
            name,
            status,
            val_time,
            unit,
            scaler,
            value,
            sig,
        })
    }

    fn body(&mut self) -> R<RBody> {
        self.list(2)?;
        let tag = self.uint(4)?;
        match tag {
            0x0101 => {
                self.list(6)?;
                let codepage = self.opt_oct()?;
                let client_id = self.opt_oct()?;
                let req_file_id = self.oct()?;
                let server_id = self.oct()?;
                let ref_time = self.opt_time()?;
                let version = if self.absent() {
                    None
                } else {
                    Some(self.uint(1)? as u8)
                };
                Ok(RBody::Open {
                    codepage,
                    client_id,
                    req_file_id,
                    server_id,
                    ref_time,
                    version,
                })
            }
            0x0201 => {
                self.list(1)?;
                Ok(RBody::Close {
                    sig: self.opt_oct()?,
                })
            }
            0x0701 => {
                self.list(7)?;
                let client_id = self.opt_oct()?;
                let server_id = self.oct()?;
                let list_name = self.opt_oct()?;
                let sensor_time = self.opt_time()?;
                let t = self.tlf()?;
                if t.ty != Ty::List {
                    return Err(Reject("val_list type"));
                }
                let mut entries = Vec::new();
                for _ in 0..t.len {
                    // every entry needs at least one byte: a declared count beyond the
                    // remaining input fails here without any pre-sizing
                    entries.push(self.entry()?);
                }
                let sig = self.opt_oct()?;
                let gateway_time = self.opt_time()?;
                Ok(RBody::GetList {
                    client_id,
                    server_id,
                    list_name,
                    sensor_time,
                    entries,
                    sig,
                    gateway_time,
                })
            }
            _ => Err(Reject("unknown message body tag")),
        }
    }

    fn message(&mut self) -> R<RMsg> {
        let start = self.p;
        self.list(6)?;
        let tid = self.oct()?;
        let group = self.uint(1)? as u8;
        let abort = self.uint(1)? as u8;
        let body = self.body()?;
        let crc_at = self.p;
        let crc = self.uint(2)?;
        let end = self.take1()?;
        if end != 0 {
            return Err(Reject("end marker"));
        }
        let calc = crc16_x25(&self.b[start..crc_at]).swap_bytes();
        if u64::from(calc) != crc {
            return Err(Reject("crc"));
        }
        Ok(RMsg {
            tid,
            group,
            abort,
            body,
        })
    }
}

/// the whole contract of the reference reader
pub fn ref_read(x: &[u8]) -> Result<RFile, Reject> {
    let mut c = Cur { b: x, p: 0 };
    let mut msgs = Vec::new();
    while !c.eof() {
        msgs.push(c.message()?);
    }
    Ok(RFile { msgs })
}

// ---------------------------------------------------------------------------
// conversions of sml-rs results into the reference tree
// ---------------------------------------------------------------------------

use sml_rs::parser::common as sc;
use sml_rs::parser::complete as cp;
use sml_rs::parser::streaming as st;

fn ohx(o: &Option<&[u8]>) -> Option<Hx> {
    o.map(|b| Hx(b.to_vec()))
}
fn otime(o: &Option<sc::Time>) -> Option<u32> {
    o.as_ref().map(|t| match t {
        sc::Time::SecIndex(x) => *x,
    })
}

pub fn conv_entry(e: &sc::ListEntry) -> REntry {
    REntry {
        name: Hx(e.obj_name.to_vec()),
        status: e.status.as_ref().map(|s| match s {
            sc::Status::Status8(x) => RStatus::S8(*x),
            sc::Status::Status16(x) => RStatus::S16(*x),
            sc::Status::Status32(x) => RStatus::S32(*x),
            sc::Status::Status64(x) => RStatus::S64(*x),
        }),
        val_time: otime(&e.val_time),
        unit: e.unit,
        scaler: e.scaler,
        value: match &e.value {
            sc::Value::Bool(b) => RValue::Bool(*b),
            sc::Value::Bytes(b) => RValue::Bytes(Hx(b.to_vec())),
            sc::Value::I8(x) => RValue::I8(*x),
            sc::Value::I16(x) => RValue::I16(*x),
            sc::Value::I32(x) => RValue::I32(*x),
            sc::Value::I64(x) => RValue::I64(*x),
            sc::Value::U8(x) => RValue::U8(*x),
            sc::Value::U16(x) => RValue::U16(*x),
            sc::Value::U32(x) => RValue::U32(*x),
            sc::Value::U64(x) => RValue::U64(*x),
            sc::Value::List(sc::ListType::Time(sc::Time::SecIndex(x))) => RValue::ListTime(*x),
        },
        sig: ohx(&e.value_signature),
    }
}

fn conv_open(o: &sc::OpenResponse) -> RBody {
    RBody::Open {
        codepage: ohx(&o.codepage),
        client_id: ohx(&o.client_id),
        req_file_id: Hx(o.req_file_id.to_vec()),
        server_id: Hx(o.server_id.to_vec()),
        ref_time: otime(&o.ref_time),
        version: o.sml_version,
    }
}

pub fn conv_file(f: &cp::File) -> RFile {
    RFile {
        msgs: f
            .messages
            .iter()
            .map(|m| RMsg {
                tid: Hx(m.transaction_id.to_vec()),
                group: m.group_no,
                abort: m.abort_on_error,
                body: match &m.message_body {
                    cp::MessageBody::OpenResponse(o) => conv_open(o),
                    cp::MessageBody::CloseResponse(c) => RBody::Close {
                        sig: ohx(&c.global_signature),
                    },
                    cp::MessageBody::GetListResponse(g) => RBody::GetList {
                        client_id: ohx(&g.client_id),
                        server_id: Hx(g.server_id.to_vec()),
                        list_name: ohx(&g.list_name),
                        sensor_time: otime(&g.act_sensor_time),
                        entries: g.val_list.iter().map(conv_entry).collect(),
                        sig: ohx(&g.list_signature),
                        gateway_time: otime(&g.act_gateway_time),
                    },
                },
            })
            .collect(),
    }
}

/// One streaming event in owned form (the harness stores these in a
/// pre-allocated arena so that no allocation happens inside `Parser::next`).
#[derive(Clone, PartialEq, Eq, Debug, Hash)]
pub enum REv {
    Start(RMsg, Option<u32>), // message with (for GetList) empty entries + announced count
    Entry(REntry),
    End(Option<Hx>, Option<u32>),
}

pub fn conv_event(e: &st::ParseEvent) -> REv {
    match e {
        st::ParseEvent::MessageStart(m) => {
            let (body, n) = match &m.message_body {
                st::MessageBody::OpenResponse(o) => (conv_open(o), None),
                st::MessageBody::CloseResponse(c) => (
                    RBody::Close {
                        sig: ohx(&c.global_signature),
                    },
                    None,
                ),
                st::MessageBody::GetListResponse(g) => (
                    RBody::GetList {
                        client_id: ohx(&g.client_id),
                        server_id: Hx(g.server_id.to_vec()),
                        list_name: ohx(&g.list_name),
                        sensor_time: otime(&g.act_sensor_time),
                        entries: Vec::new(),
                        sig: None,
                        gateway_time: None,
                    },
                    Some(g.num_vals),
                ),
            };
            REv::Start(
                RMsg {
                    tid: Hx(m.transaction_id.to_vec()),
                    group: m.group_no,
                    abort: m.abort_on_error,
                    body,
                },
                n,
            )
        }
        st::ParseEvent::ListEntry(e) => REv::Entry(conv_entry(e)),
        st::ParseEvent::GetListResponseEnd(e) => {
            REv::End(ohx(&e.list_signature), otime(&e.act_gateway_time))
        }
    }
}

/// Reassemble streaming events into a file and check the event protocol
/// `Start(n) · Entry^n · End` (C09).  Returns the file built from *complete*
/// messages plus the possibly incomplete last one, and a protocol violation
/// description if any.  `complete` tells whether the last message was closed.
pub struct Reassembled {
    pub file: RFile,
    pub protocol_error: Option<String>,
    /// the last message is a list response whose End event has not been seen
    pub open_list: bool,
}

pub fn reassemble(evs: &[REv]) -> Reassembled {
    let mut file = RFile::default();
    let mut pending: Option<u32> = None; // entries still announced
    let mut in_list = false;
    let mut perr = None;
    for (i, e) in evs.iter().enumerate() {
        match e {
            REv::Start(m, n) => {
                if in_list && perr.is_none() {
                    perr = Some(format!(
                        "event {}: MessageStart while a list response is open ({} entries pending)",
                        i,
                        pending.unwrap_or(0)
                    ));
                }
                file.msgs.push(m.clone());
                if let Some(n) = n {
                    in_list = true;
                    pending = Some(*n);
                } else {
                    in_list = false;
                    pending = None;
                }
            }
            REv::Entry(en) => {
                if !in_list || pending == Some(0) {
                    if perr.is_none() {
                        perr = Some(format!("event {}: ListEntry outside its window", i));
                    }
                }
                if let Some(p) = pending.as_mut() {
                    *p = p.saturating_sub(1);
                }
                if let Some(RMsg {
                    body: RBody::GetList { entries, .. },
                    ..
                }) = file.msgs.last_mut()
                {
                    entries.push(en.clone());
                }
            }
            REv::End(s, t) => {
                if !in_list || pending != Some(0) {
                    if perr.is_none() {
                        perr = Some(format!(
                            "event {}: GetListResponseEnd with {:?} entries pending (in_list={})",
                            i, pending, in_list
                        ));
                    }
                }
                if let Some(RMsg {
                    body: RBody::GetList {
                        sig, gateway_time, ..
                    },
                    ..
                }) = file.msgs.last_mut()
                {
                    *sig = s.clone();
                    *gateway_time = *t;
                }
                in_list = false;
                pending = None;
            }
        }
    }
    Reassembled {
        file,
        protocol_error: perr,
        open_list: in_list,
    }
}

pub fn self_test() -> Result<(), String> {
    // the close-response example printed in complete.rs
    let bytes = [
        0x76, 0x5, 0xdd, 0x43, 0x44, 0x0, 0x62, 0x0, 0x62, 0x0, 0x72, 0x63, 0x2, 0x1, 0x71, 0x1,
        0x63, 0xfd, 0x56, 0x0,
    ];
    let f = ref_read(&bytes).map_err(|e| format!("ref_read doc example rejected: {:?}", e))?;
    let exp = RFile {
        msgs: vec![RMsg {
            tid: Hx(vec![221, 67, 68, 0]),
            group: 0,
            abort: 0,
            body: RBody::Close { sig: None },
        }],
    };
    if f != exp {
        return Err(format!("ref_read doc example: {:?}", f));
    }
    let mut bad = bytes;
    bad[17] ^= 1;
    if ref_read(&bad).is_ok() {
        return Err("ref_read accepted a bad crc".into());
    }
    if ref_read(&bytes[..19]).is_ok() {
        return Err("ref_read accepted a truncated file".into());
    }
    if ref_read(&[]) != Ok(RFile::default()) {
        return Err("ref_read empty".into());
    }
    Ok(())
}
