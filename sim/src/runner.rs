//! Batch runner: static partition of run indices over worker *processes*
//! (so that aborts and hangs are contained and attributed), merge, minimise,
//! replay files, evidence, known findings, exit codes.
//!
//! exit 0: property held on everything explored (known findings are printed)
//! exit 1: `VIOLATION property=<id> replay=<path>` printed
//! exit 2: harness error (self-test, non-reproducible crash, bad arguments)

use crate::core::*;
use crate::obs::hash_of;
use crate::rng::{mix, Rng};
use crate::scn::Scenario;
use serde::{Deserialize, Serialize};
use std::cell::RefCell;
use std::collections::{BTreeMap, HashSet};
use std::io::Write;
use std::path::{Path, PathBuf};
use std::process::{Child, Command, Stdio};
use std::time::{Duration, Instant};

pub const DEFAULT_SEED: u64 = 20261001;
const HANG_SECS: u64 = 40;
const MAX_SET: usize = 6_000_000;
const MAX_VIOL_PER_SIG: usize = 4;

thread_local! {
    static LAST_PANIC: RefCell<Option<(String, String)>> = const { RefCell::new(None) };
    static IN_CATCH: std::cell::Cell<bool> = const { std::cell::Cell::new(false) };
}

pub fn install_panic_hook() {
    std::panic::set_hook(Box::new(|info| {
        let loc = info
            .location()
            .map(|l| format!("{}:{}", l.file(), l.line()))
            .unwrap_or_else(|| "?".into());
        let msg = if let Some(s) = info.payload().downcast_ref::<&str>() {
            s.to_string()
        } else if let Some(s) = info.payload().downcast_ref::<String>() {
            s.clone()
        } else {
            "<non-string panic payload>".into()
        };
        if !IN_CATCH.with(|c| c.get()) {
            // a panic outside a run (generator, runner): always a harness error, never swallowed
            eprintln!("HARNESS ERROR: panic outside a run at {}: {}", loc, msg);
        }
        LAST_PANIC.with(|p| *p.borrow_mut() = Some((loc, msg)));
    }));
}

/// source location relative to the repository (stable across scratch copies) or to the std library
fn short_loc(loc: &str) -> String {
    if let Some(i) = loc.find("/repo/") {
        loc[i + 6..].to_string()
    } else if let Some(i) = loc.find("/library/") {
        format!("std:{}", &loc[i + 9..])
    } else {
        loc.to_string()
    }
}

/// run `f`, turning a panic into a Violation (class `panic`, or `harness` if
/// the message says so)
pub fn catch<T>(f: impl FnOnce() -> T) -> Result<T, Violation> {
    LAST_PANIC.with(|p| *p.borrow_mut() = None);
    let prev = IN_CATCH.with(|c| c.replace(true));
    let r = std::panic::catch_unwind(std::panic::AssertUnwindSafe(f));
    IN_CATCH.with(|c| c.set(prev));
    match r {
        Ok(v) => Ok(v),
        Err(_) => {
            let (loc, msg) = LAST_PANIC
                .with(|p| p.borrow_mut().take())
                .unwrap_or_else(|| ("?".into(), "?".into()));
            let class = if msg.starts_with("HARNESS") || loc.contains("/verif/sim/") {
                "harness"
            } else {
                "panic"
            };
            Err(Violation {
                class: class.into(),
                clause: format!("panic@{}", short_loc(&loc)),
                detail: msg,
            })
        }
    }
}

#[derive(Serialize, Deserialize, Clone, Debug)]
pub struct Found {
    pub idx: u64,
    pub run_seed: u64,
    pub violation: Violation,
    pub scenario: Scenario,
}

#[derive(Serialize, Deserialize, Clone, Debug, Default)]
pub struct Sample {
    pub idx: u64,
    pub scenario: Option<Scenario>,
    pub history: String,
}

#[derive(Serialize, Deserialize, Default, Debug)]
pub struct WorkerResult {
    pub shard: u64,
    pub evaluations: u64,
    pub nontrivial: u64,
    pub steps: u64,
    pub stats: Stats,
    pub found: Vec<Found>,
    pub sig_counts: BTreeMap<String, u64>,
    pub samples: Vec<Sample>,
    pub unattributed_crashes: u64,
    pub set_saturated: bool,
    pub wall_s: f64,
}

/// worker stack: ArrayBuf<1500000> and a few copies of it fit, 70 000 nested calls do not
pub const STACK_BYTES: usize = if cfg!(debug_assertions) { 48 << 20 } else { 64 << 20 };

/// the stack the worker thread of this process really got (set by `main`)
pub static STACK_USED: std::sync::atomic::AtomicUsize = std::sync::atomic::AtomicUsize::new(0);

/// true in the unoptimised build of the simulator (`cargo build` without `--release`)
pub fn unoptimised_build() -> bool {
    cfg!(debug_assertions)
}

pub fn scale_runs(n: u64) -> u64 {
    match std::env::var("VERIF_RUNS_SCALE").ok().and_then(|s| s.parse::<f64>().ok()) {
        Some(f) if f > 0.0 => ((n as f64) * f).max(1.0) as u64,
        _ => n,
    }
}

/// the scenario of run `idx` (directed corpus first, then seeded runs)
pub fn scenario_at(prop: &dyn Prop, directed: &[Scenario], tier: Tier, seed: u64, idx: u64) -> (Scenario, u64) {
    if (idx as usize) < directed.len() {
        (directed[idx as usize].clone(), 0)
    } else {
        let k = idx - directed.len() as u64;
        let rs = mix(seed, prop.id(), k);
        let mut rng = Rng::new(rs);
        (prop.gen(&mut rng, tier), rs)
    }
}

fn write_u64s(path: &Path, set: &HashSet<u64>) {
    let mut buf = Vec::with_capacity(set.len() * 8);
    for x in set {
        buf.extend_from_slice(&x.to_le_bytes());
    }
    std::fs::write(path, buf).expect("HARNESS: write set");
}

fn read_u64s(path: &Path, into: &mut HashSet<u64>) {
    if let Ok(b) = std::fs::read(path) {
        for ch in b.chunks_exact(8) {
            if into.len() >= MAX_SET * 4 {
                break;
            }
            into.insert(u64::from_le_bytes(ch.try_into().unwrap()));
        }
    }
}

pub struct WorkerArgs {
    pub tier: Tier,
    pub seed: u64,
    pub shard: u64,
    pub nshards: u64,
    pub outdir: PathBuf,
    pub skip: Vec<u64>,
    pub only: Option<u64>,
    pub dump_hashes: bool,
}

pub fn worker(prop: &dyn Prop, a: &WorkerArgs) -> i32 {
    let t0 = Instant::now();
    let directed = prop.directed(a.tier);
    let total = directed.len() as u64 + scale_runs(prop.runs(a.tier));
    let mut res = WorkerResult {
        shard: a.shard,
        ..Default::default()
    };
    let progress_path = a.outdir.join(format!("progress-{}", a.shard));
    let phase_path = a.outdir.join(format!("phase-{}", a.shard));
    let _ = std::fs::remove_file(&phase_path);
    let mut fp_set: HashSet<u64> = HashSet::new();
    let mut hist_set: HashSet<u64> = HashSet::new();
    let mut st = Stats::default();
    let mut dump = if a.dump_hashes {
        Some(std::io::BufWriter::new(
            std::fs::File::create(a.outdir.join(format!("hashes-{}", a.shard))).expect("HARNESS: dump"),
        ))
    } else {
        None
    };
    let mut per_sig_kept: BTreeMap<String, usize> = BTreeMap::new();
    let indices: Box<dyn Iterator<Item = u64>> = match a.only {
        Some(i) => Box::new(std::iter::once(i)),
        None => Box::new((a.shard..total).step_by(a.nshards as usize)),
    };
    for idx in indices {
        if a.skip.contains(&idx) {
            continue;
        }
        let _ = std::fs::write(&progress_path, idx.to_le_bytes());
        let (scn, run_seed) = scenario_at(prop, &directed, a.tier, a.seed, idx);
        // generation is over, the code under test runs from here: a stall or abort before this
        // mark is the simulator's own and is reported as a harness error, never as a violation
        let _ = std::fs::write(&phase_path, idx.to_le_bytes());
        let want_sample = res.samples.len() < 2 && a.shard == 0;
        st.want_hist = want_sample;
        let r = catch(|| prop.exec(&scn, &mut st));
        res.evaluations += 1;
        let (violation, hist_hash) = match r {
            Ok(o) => {
                res.steps += o.steps;
                if o.nontrivial {
                    res.nontrivial += 1;
                    if fp_set.len() < MAX_SET {
                        fp_set.insert(hash_of(&scn));
                    } else {
                        res.set_saturated = true;
                    }
                }
                if hist_set.len() < MAX_SET {
                    hist_set.insert(o.hist_hash);
                }
                if want_sample && o.nontrivial {
                    res.samples.push(Sample {
                        idx,
                        scenario: Some(scn.clone()),
                        history: o.hist.clone(),
                    });
                }
                (o.violation, o.hist_hash)
            }
            Err(v) => {
                if v.class == "harness" {
                    eprintln!("HARNESS ERROR in run {}: {} {}", idx, v.clause, v.detail);
                    let _ = std::fs::write(
                        a.outdir.join(format!("harness-error-{}", a.shard)),
                        format!("run {}: {} {}\n{}", idx, v.clause, v.detail, serde_json::to_string(&scn).unwrap_or_default()),
                    );
                    return 2;
                }
                if prop.crash_is_violation() {
                    (Some(v), 0)
                } else {
                    res.unattributed_crashes += 1;
                    st.add_dyn(format!("unattributed.{}", v.clause), 1);
                    (None, 0)
                }
            }
        };
        if let Some(d) = dump.as_mut() {
            let _ = writeln!(
                d,
                "{} {:016x} {}",
                idx,
                hist_hash,
                violation.as_ref().map(|v| v.signature()).unwrap_or_else(|| "ok".into())
            );
        }
        if let Some(v) = violation {
            let sig = v.signature();
            *res.sig_counts.entry(sig.clone()).or_insert(0) += 1;
            let kept = per_sig_kept.entry(sig).or_insert(0);
            if *kept < MAX_VIOL_PER_SIG {
                *kept += 1;
                res.found.push(Found {
                    idx,
                    run_seed,
                    violation: v,
                    scenario: scn,
                });
            }
        }
    }
    st.settle();
    res.stats = st;
    res.wall_s = t0.elapsed().as_secs_f64();
    write_u64s(&a.outdir.join(format!("fp-{}", a.shard)), &fp_set);
    write_u64s(&a.outdir.join(format!("hist-{}", a.shard)), &hist_set);
    let name = match a.only {
        Some(i) => format!("only-{}.json", i),
        None => format!("result-{}.json", a.shard),
    };
    std::fs::write(a.outdir.join(name), serde_json::to_vec(&res).expect("HARNESS: ser")).expect("HARNESS: write result");
    0
}

// ---------------------------------------------------------------------------
// parent
// ---------------------------------------------------------------------------

fn verif_root() -> PathBuf {
    std::env::var("VERIF_ROOT").map(PathBuf::from).unwrap_or_else(|_| PathBuf::from("/verif"))
}

struct Running {
    shard: u64,
    child: Child,
    last_progress: Option<u64>,
    last_change: Instant,
    skip: Vec<u64>,
}

fn spawn_worker(prop: &str, tier: Tier, seed: u64, shard: u64, nshards: u64, outdir: &Path, skip: &[u64], only: Option<u64>, dump: bool) -> Child {
    let exe = std::env::current_exe().expect("HARNESS: current_exe");
    let mut c = Command::new(exe);
    c.arg("worker")
        .arg(prop)
        .arg(tier.name())
        .arg(seed.to_string())
        .arg(shard.to_string())
        .arg(nshards.to_string())
        .arg(outdir);
    if !skip.is_empty() {
        c.arg("--skip")
            .arg(skip.iter().map(|x| x.to_string()).collect::<Vec<_>>().join(","));
    }
    if let Some(i) = only {
        c.arg("--only").arg(i.to_string());
    }
    if dump {
        c.arg("--dump-hashes");
    }
    let log = std::fs::File::create(outdir.join(format!(
        "log-{}{}",
        shard,
        only.map(|i| format!("-only{}", i)).unwrap_or_default()
    )))
    .expect("HARNESS: log");
    c.stdin(Stdio::null())
        .stdout(Stdio::from(log.try_clone().expect("HARNESS: clone")))
        .stderr(Stdio::from(log));
    c.spawn().expect("HARNESS: spawn worker")
}

fn read_phase(outdir: &Path, shard: u64) -> Option<u64> {
    let b = std::fs::read(outdir.join(format!("phase-{}", shard))).ok()?;
    if b.len() == 8 {
        Some(u64::from_le_bytes(b.try_into().unwrap()))
    } else {
        None
    }
}

fn read_progress(outdir: &Path, shard: u64) -> Option<u64> {
    let b = std::fs::read(outdir.join(format!("progress-{}", shard))).ok()?;
    if b.len() == 8 {
        Some(u64::from_le_bytes(b.try_into().unwrap()))
    } else {
        None
    }
}

#[derive(Deserialize, Default)]
struct KnownFile {
    #[serde(default)]
    known: Vec<KnownEntry>,
    #[serde(default)]
    #[allow(dead_code)]
    fixed: Vec<serde_json::Value>,
}
#[derive(Deserialize)]
struct KnownEntry {
    property: String,
    signature: String,
    #[serde(default)]
    detail_contains: Option<String>,
    what: String,
}

pub struct CheckOpts {
    pub tier: Tier,
    pub seed: u64,
    pub workers: u64,
    pub dump_hashes: bool,
    pub write_evidence: bool,
    pub keep_outdir: bool,
}

pub fn workers_default() -> u64 {
    if let Ok(s) = std::env::var("VERIF_WORKERS") {
        if let Ok(n) = s.parse::<u64>() {
            if n > 0 {
                return n;
            }
        }
    }
    std::thread::available_parallelism().map(|n| n.get() as u64).unwrap_or(4).min(16)
}

pub fn seed_from_env() -> u64 {
    std::env::var("VERIF_SEED")
        .ok()
        .and_then(|s| s.trim().parse::<u64>().ok())
        .unwrap_or(DEFAULT_SEED)
}

pub struct CheckReport {
    pub exit: i32,
    pub outdir: PathBuf,
}

pub fn check(prop: &dyn Prop, o: &CheckOpts) -> CheckReport {
    let t0 = Instant::now();
    let root = verif_root();
    let outdir = root.join("target").join("runs").join(format!(
        "{}-{}-{}-{}",
        prop.id(),
        o.tier.name(),
        o.seed,
        std::process::id()
    ));
    let _ = std::fs::remove_dir_all(&outdir);
    std::fs::create_dir_all(&outdir).expect("HARNESS: mkdir outdir");

    let directed = prop.directed(o.tier);
    let total = directed.len() as u64 + scale_runs(prop.runs(o.tier));
    let nshards = o.workers.min(total.max(1));
    let label = if unoptimised_build() { format!("{}/unoptimised-build", prop.id()) } else { prop.id().to_string() };
    println!(
        "[{}] tier={} seed={} runs={} ({} directed + {} seeded) workers={}",
        label,
        o.tier.name(),
        o.seed,
        total,
        directed.len(),
        total - directed.len() as u64,
        nshards
    );

    let mut running: Vec<Running> = (0..nshards)
        .map(|s| Running {
            shard: s,
            child: spawn_worker(prop.id(), o.tier, o.seed, s, nshards, &outdir, &[], None, o.dump_hashes),
            last_progress: None,
            last_change: Instant::now(),
            skip: Vec::new(),
        })
        .collect();
    let mut crashes: Vec<(u64, u64, String)> = Vec::new(); // (shard, idx, how)
    let mut truncated = false;
    let mut harness_error = false;
    let mut done: Vec<u64> = Vec::new();
    while !running.is_empty() {
        std::thread::sleep(Duration::from_millis(15));
        let mut i = 0;
        while i < running.len() {
            let r = &mut running[i];
            let mut crashed: Option<String> = None;
            match r.child.try_wait() {
                Ok(Some(status)) => {
                    if status.success() && outdir.join(format!("result-{}.json", r.shard)).exists() {
                        done.push(r.shard);
                        running.swap_remove(i);
                        continue;
                    } else if status.code() == Some(2) {
                        harness_error = true;
                        running.swap_remove(i);
                        continue;
                    } else {
                        crashed = Some(format!("abort ({})", status));
                    }
                }
                Ok(None) => {
                    let p = read_progress(&outdir, r.shard);
                    if p != r.last_progress {
                        r.last_progress = p;
                        r.last_change = Instant::now();
                    } else if r.last_change.elapsed() > Duration::from_secs(HANG_SECS) {
                        let _ = r.child.kill();
                        let _ = r.child.wait();
                        crashed = Some("hang".into());
                    }
                }
                Err(_) => {
                    crashed = Some("abort (wait failed)".into());
                }
            }
            if let Some(how) = crashed {
                let idx = read_progress(&outdir, r.shard).unwrap_or(u64::MAX);
                if idx != u64::MAX && read_phase(&outdir, r.shard) != Some(idx) {
                    eprintln!("HARNESS ERROR: worker {} stopped ({}) while *generating* run {}: the simulator's generator stalled or died, nothing is known about the code under test", r.shard, how, idx);
                    harness_error = true;
                    running.swap_remove(i);
                    continue;
                }
                crashes.push((r.shard, idx, how));
                r.skip.push(idx);
                // crash budget: a few crashes per shard and per batch are chased (the shard is re-run
                // without the crashing index); beyond that the shard is abandoned - the violation is
                // established already and every further one costs a watchdog period
                if r.skip.len() > 3 || crashes.len() > 6 || idx == u64::MAX {
                    truncated = true;
                    running.swap_remove(i);
                    continue;
                }
                r.child = spawn_worker(prop.id(), o.tier, o.seed, r.shard, nshards, &outdir, &r.skip, None, o.dump_hashes);
                r.last_progress = None;
                r.last_change = Instant::now();
            }
            i += 1;
        }
    }
    if harness_error {
        for e in std::fs::read_dir(&outdir).into_iter().flatten().flatten() {
            if e.file_name().to_string_lossy().starts_with("harness-error") {
                eprintln!("{}", std::fs::read_to_string(e.path()).unwrap_or_default());
            }
        }
        for e in std::fs::read_dir(&outdir).into_iter().flatten().flatten() {
            if e.file_name().to_string_lossy().starts_with("log-") {
                let t = std::fs::read_to_string(e.path()).unwrap_or_default();
                if t.contains("HARNESS") {
                    eprintln!("{}", truncate(&t, 1500));
                }
            }
        }
        eprintln!("HARNESS ERROR: a worker reported a harness error (see {})", outdir.display());
        return CheckReport { exit: 2, outdir };
    }

    // merge
    let mut stats = Stats::default();
    let mut evaluations = 0u64;
    let mut nontrivial = 0u64;
    let mut steps = 0u64;
    let mut found: Vec<Found> = Vec::new();
    let mut sig_counts: BTreeMap<String, u64> = BTreeMap::new();
    let mut samples: Vec<Sample> = Vec::new();
    let mut unattributed = 0u64;
    let mut saturated = false;
    let mut fp: HashSet<u64> = HashSet::new();
    let mut hs: HashSet<u64> = HashSet::new();
    let mut worker_cpu_s = 0.0;
    done.sort();
    for s in &done {
        let b = std::fs::read(outdir.join(format!("result-{}.json", s))).expect("HARNESS: read result");
        let r: WorkerResult = serde_json::from_slice(&b).expect("HARNESS: parse result");
        stats.merge(&r.stats);
        evaluations += r.evaluations;
        nontrivial += r.nontrivial;
        steps += r.steps;
        found.extend(r.found);
        for (k, v) in r.sig_counts {
            *sig_counts.entry(k).or_insert(0) += v;
        }
        samples.extend(r.samples);
        unattributed += r.unattributed_crashes;
        saturated |= r.set_saturated;
        worker_cpu_s += r.wall_s;
        read_u64s(&outdir.join(format!("fp-{}", s)), &mut fp);
        read_u64s(&outdir.join(format!("hist-{}", s)), &mut hs);
    }

    // confirm crashes (abort / hang) in a fresh process each
    let mut confirmed_sigs = 0;
    for (shard, idx, how) in &crashes {
        if confirmed_sigs >= 3 {
            break;
        }
        confirmed_sigs += 1;
        if *idx == u64::MAX {
            eprintln!("HARNESS ERROR: worker {} died before its first run: {}", shard, how);
            return CheckReport { exit: 2, outdir };
        }
        let mut c = spawn_worker(prop.id(), o.tier, o.seed, *shard, nshards, &outdir, &[], Some(*idx), false);
        let t = Instant::now();
        let confirmed = loop {
            match c.try_wait() {
                Ok(Some(st)) => break !(st.success()),
                Ok(None) => {
                    if t.elapsed() > Duration::from_secs(HANG_SECS) {
                        let _ = c.kill();
                        let _ = c.wait();
                        break true;
                    }
                    std::thread::sleep(Duration::from_millis(20));
                }
                Err(_) => break true,
            }
        };
        if confirmed && read_phase(&outdir, *shard) != Some(*idx) {
            eprintln!("HARNESS ERROR: run {} stopped ({}) while it was being *generated*, also when re-run alone: the simulator's generator stalls or dies", idx, how);
            return CheckReport { exit: 2, outdir };
        }
        if !confirmed {
            eprintln!(
                "HARNESS ERROR: run {} crashed ({}) in the batch but not when re-run alone: nondeterminism",
                idx, how
            );
            return CheckReport { exit: 2, outdir };
        }
        let (scn, run_seed) = scenario_at(prop, &directed, o.tier, o.seed, *idx);
        let class = if how.starts_with("hang") { "hang" } else { "abort" };
        let log = std::fs::read_to_string(outdir.join(format!("log-{}-only{}", shard, idx))).unwrap_or_default();
        let v = Violation {
            class: class.into(),
            clause: format!("{}.process-{}", prop.id(), class),
            detail: format!("{}; child output: {}", how, log.lines().rev().take(3).collect::<Vec<_>>().join(" | ")),
        };
        evaluations += 1;
        if prop.crash_is_violation() {
            *sig_counts.entry(v.signature()).or_insert(0) += 1;
            found.push(Found {
                idx: *idx,
                run_seed,
                violation: v,
                scenario: scn,
            });
        } else {
            unattributed += 1;
        }
    }

    // group violations by signature, lowest run index first
    found.sort_by_key(|f| f.idx);
    let known: KnownFile = std::fs::read(root.join("known_findings.json"))
        .ok()
        .and_then(|b| serde_json::from_slice(&b).ok())
        .unwrap_or_default();
    let mut seen_sigs: Vec<String> = Vec::new();
    let mut unknown = 0;
    let mut known_hits = 0;
    let mut violation_lines = Vec::new();
    for f in &found {
        let sig = f.violation.signature();
        if seen_sigs.contains(&sig) {
            continue;
        }
        seen_sigs.push(sig.clone());
        let k = known.known.iter().find(|k| {
            k.property == prop.id()
                && k.signature == sig
                && k.detail_contains.as_ref().map(|d| f.violation.detail.contains(d)).unwrap_or(true)
        });
        if let Some(k) = k {
            known_hits += 1;
            println!("KNOWN-FINDING: property={} {} [{} run(s), first run {}]", prop.id(), k.what, sig_counts.get(&sig).copied().unwrap_or(1), f.idx);
            continue;
        }
        unknown += 1;
        // minimise (in-process for oracle / panic classes)
        let (min_scn, execs) = if f.violation.class == "oracle" || f.violation.class == "panic" {
            crate::shrink::minimise(prop, &f.scenario, &sig, 1500)
        } else {
            // abort / hang: every candidate runs in a process of its own
            minimise_external(prop, &f.scenario, &f.violation.class, &outdir)
        };
        let (v2, hist, hh) = if f.violation.class == "oracle" || f.violation.class == "panic" {
            crate::shrink::exec_caught(prop, &min_scn, true)
        } else {
            (Some(f.violation.clone()), String::new(), 0)
        };
        let v2 = v2.unwrap_or_else(|| f.violation.clone());
        let replay = serde_json::json!({
            "property": prop.id(),
            "verif_seed": o.seed,
            "tier": o.tier.name(),
            "run_index": f.idx,
            "run_seed": f.run_seed,
            "class": v2.class,
            "clause": v2.clause,
            "detail": v2.detail,
            "history": hist,
            "history_hash": format!("{:016x}", hh),
            "minimisation_executions": execs,
            "occurrences_in_batch": sig_counts.get(&sig).copied().unwrap_or(1),
            "scenario": min_scn,
            "original_detail": f.violation.detail,
            "original_scenario": f.scenario,
            "build": if unoptimised_build() { "unoptimised" } else { "release" },
        });
        let rdir = root.join("replays");
        let _ = std::fs::create_dir_all(&rdir);
        let rpath = rdir.join(format!("{}-{}-{}{}.json", prop.id(), o.seed, f.idx, if unoptimised_build() { "-unopt" } else { "" }));
        std::fs::write(&rpath, serde_json::to_vec_pretty(&replay).expect("HARNESS: ser replay")).expect("HARNESS: write replay");
        violation_lines.push(format!("VIOLATION property={} replay={}", prop.id(), rpath.display()));
        println!("  violation [{}] in run {} (x{} in batch): {}", sig, f.idx, sig_counts.get(&sig).copied().unwrap_or(1), truncate(&v2.detail, 600));
    }

    let wall = t0.elapsed().as_secs_f64();
    // probes
    let mut zero_probes = Vec::new();
    for p in prop.required_probes(o.tier) {
        if stats.get(p) == 0 {
            zero_probes.push(p.to_string());
        }
    }
    for p in &zero_probes {
        println!("PROBE-ZERO: {} (the workload did not reach this branch in this batch)", p);
    }

    // the unoptimised build repeats a share of the batch (totality properties only)
    let share = prop.unoptimised_share(o.tier);
    let mut unopt_summary = serde_json::Value::Null;
    let mut unopt_exit = 0;
    if share > 0.0 && o.write_evidence && !unoptimised_build() {
        let (v, e) = run_unoptimised(prop, o, share, &outdir);
        unopt_summary = v;
        unopt_exit = e;
        if e == 2 {
            return CheckReport { exit: 2, outdir };
        }
    }
    let summary_out = std::env::var("VERIF_SUMMARY_OUT").ok().filter(|_| unoptimised_build());

    if o.write_evidence {
        let mut faults = BTreeMap::new();
        let mut probes = BTreeMap::new();
        let mut other = BTreeMap::new();
        for (k, v) in &stats.c {
            if let Some(r) = k.strip_prefix("fault.") {
                faults.insert(r.to_string(), *v);
            } else if let Some(r) = k.strip_prefix("probe.") {
                probes.insert(r.to_string(), *v);
            } else {
                other.insert(k.clone(), *v);
            }
        }
        let distinct = fp.len() as u64;
        let ev = serde_json::json!({
            "property_id": prop.id(),
            "tier": o.tier.name(),
            "seed": o.seed,
            "level": prop.level(),
            "wall_s": wall,
            "violations": unknown,
            "known_findings_seen": known_hits,
            "assumptions": prop.assumptions(),
            "coverage": {
                "evaluations": evaluations,
                "distinct_nontrivial": distinct,
                "nontrivial_runs": nontrivial,
                "distinct_set_saturated": saturated,
                "rule": prop.rule(),
                "samples": samples.iter().take(3).collect::<Vec<_>>(),
                "directed_corpus_runs": directed.len(),
                "seeded_runs": total - directed.len() as u64,
                "distinct_histories": hs.len(),
                "logical_steps": steps,
                "simulated_time_note": "no clock exists in sml-rs; simulated time is reported as logical steps (bytes delivered + source events + API calls)",
                "runs_per_hour": if wall > 0.0 { (evaluations as f64 / wall * 3600.0) as u64 } else { 0 },
                "seeds_per_hour": if wall > 0.0 { ((total - directed.len() as u64) as f64 / wall * 3600.0) as u64 } else { 0 },
                "worker_cpu_s": worker_cpu_s,
                "workers": nshards,
                "faults_fired": faults,
                "probes": probes,
                "counters": other,
                "zero_required_probes": zero_probes,
                "aborted_runs_not_attributed": unattributed,
                "process_crashes": crashes.iter().map(|(s, i, h)| format!("shard {} run {}: {}", s, i, h)).collect::<Vec<_>>(),
                "truncated": truncated,
                "violation_signatures": sig_counts,
                "components_real_code": COMPONENTS_REAL,
                "components_stub": COMPONENTS_STUB,
                "build": format!(
                    "{}, {} MiB worker stack",
                    if unoptimised_build() { "unoptimised (opt-level 0, debug assertions, overflow checks)" } else { "release (opt-level 3, overflow checks)" },
                    STACK_USED.load(std::sync::atomic::Ordering::Relaxed) >> 20
                ),
                "unoptimised_build_batch": unopt_summary,
            }
        });
        if let Some(p) = &summary_out {
            // child of a release check: hand the summary to the parent instead of writing evidence
            let c = &ev["coverage"];
            let sum = serde_json::json!({
                "evaluations": c["evaluations"], "distinct_nontrivial": c["distinct_nontrivial"], "distinct_histories": c["distinct_histories"],
                "logical_steps": c["logical_steps"], "directed_corpus_runs": c["directed_corpus_runs"], "seeded_runs": c["seeded_runs"],
                "faults_fired": c["faults_fired"], "probes": c["probes"], "process_crashes": c["process_crashes"],
                "violation_signatures": c["violation_signatures"], "violations": unknown, "wall_s": wall, "build": c["build"],
                "share_of_seeded_runs": std::env::var("VERIF_RUNS_SCALE").unwrap_or_default(),
            });
            std::fs::write(p, serde_json::to_vec_pretty(&sum).expect("HARNESS: ser summary")).expect("HARNESS: write summary");
        } else {
        let edir = root.join("evidence");
        let _ = std::fs::create_dir_all(&edir);
        std::fs::write(
            edir.join(format!("{}.json", prop.id())),
            serde_json::to_vec_pretty(&ev).expect("HARNESS: ser evidence"),
        )
        .expect("HARNESS: write evidence");
        }
    }
    println!(
        "[{}] {} runs, {} distinct non-trivial, {} distinct histories, {} steps, {:.1}s wall, {} violation signature(s) ({} known)",
        label,
        evaluations,
        fp.len(),
        hs.len(),
        steps,
        wall,
        seen_sigs.len(),
        known_hits
    );
    for l in &violation_lines {
        println!("{}", l);
    }
    if !o.keep_outdir {
        let _ = std::fs::remove_dir_all(&outdir);
    }
    CheckReport {
        exit: if unknown > 0 || unopt_exit == 1 { 1 } else { 0 },
        outdir,
    }
}

/// How a scenario ends when executed alone in a fresh process of this build: "abort", "hang"
/// (no result within `limit`), "violation" or "ok".
fn outcome_in_fresh_process(prop: &dyn Prop, scn: &Scenario, dir: &Path, limit: Duration) -> &'static str {
    let file = dir.join("minimise-candidate.json");
    let body = serde_json::json!({"property": prop.id(), "class": "", "clause": "", "scenario": scn});
    if std::fs::write(&file, serde_json::to_vec(&body).expect("HARNESS: ser candidate")).is_err() {
        return "ok";
    }
    let exe = std::env::current_exe().expect("HARNESS: current_exe");
    let mut child = match Command::new(exe).arg("exec-one").arg(&file).stdin(Stdio::null()).stdout(Stdio::piped()).stderr(Stdio::null()).spawn() {
        Ok(c) => c,
        Err(_) => return "ok",
    };
    let t = Instant::now();
    loop {
        match child.try_wait() {
            Ok(Some(st)) => {
                if !st.success() {
                    return "abort";
                }
                let mut out = String::new();
                if let Some(mut so) = child.stdout.take() {
                    use std::io::Read;
                    let _ = so.read_to_string(&mut out);
                }
                let v: serde_json::Value = serde_json::from_str(out.trim()).unwrap_or(serde_json::Value::Null);
                return if v.get("violation").map(|x| x.is_null()).unwrap_or(true) { "ok" } else { "violation" };
            }
            Ok(None) => {
                if t.elapsed() > limit {
                    let _ = child.kill();
                    let _ = child.wait();
                    return "hang";
                }
                std::thread::sleep(Duration::from_millis(5));
            }
            Err(_) => return "abort",
        }
    }
}

/// Greedy descent like `shrink::minimise`, for violations that take the process down: a
/// candidate is kept if it still ends in the same way (abort / hang) when run alone.
fn minimise_external(prop: &dyn Prop, scn: &Scenario, class: &str, dir: &Path) -> (Scenario, usize) {
    let (budget, limit) = if class == "hang" { (16usize, Duration::from_secs(6)) } else { (120usize, Duration::from_secs(HANG_SECS)) };
    let mut best = scn.clone();
    let mut best_size = crate::shrink::size(&best);
    let mut execs = 0;
    // the starting point must reproduce on its own (it was confirmed once already)
    'outer: loop {
        for c in crate::shrink::candidates(&best) {
            if execs >= budget {
                break 'outer;
            }
            let cs = crate::shrink::size(&c);
            if cs >= best_size {
                continue;
            }
            execs += 1;
            if outcome_in_fresh_process(prop, &c, dir, limit) == class {
                best = c;
                best_size = cs;
                continue 'outer;
            }
        }
        break;
    }
    (best, execs)
}

/// the sibling binary built without `--release`
fn unoptimised_binary() -> Option<PathBuf> {
    let exe = std::env::current_exe().ok()?;
    let p = exe.parent()?.parent()?.join("debug").join("sml-sim");
    if p.exists() {
        Some(p)
    } else {
        None
    }
}

/// Run `share` of the batch in the unoptimised build; its VIOLATION lines go straight to our
/// stdout, its summary comes back through a file.
fn run_unoptimised(prop: &dyn Prop, o: &CheckOpts, share: f64, outdir: &Path) -> (serde_json::Value, i32) {
    let bin = match unoptimised_binary() {
        Some(b) => b,
        None => {
            eprintln!("HARNESS ERROR: the unoptimised build of the simulator (target/debug/sml-sim) is missing; run `cargo build --offline` in the sim directory (the check script does)");
            return (serde_json::Value::Null, 2);
        }
    };
    let outer = std::env::var("VERIF_RUNS_SCALE").ok().and_then(|s| s.parse::<f64>().ok()).filter(|f| *f > 0.0).unwrap_or(1.0);
    let summary = outdir.join("unoptimised-summary.json");
    let st = Command::new(bin)
        .args(["check", prop.id(), o.tier.name()])
        .env("VERIF_RUNS_SCALE", format!("{}", share * outer))
        .env("VERIF_SEED", format!("{}", o.seed))
        .env("VERIF_WORKERS", format!("{}", o.workers))
        .env("VERIF_SUMMARY_OUT", &summary)
        .stdin(Stdio::null())
        .status();
    let code = match st {
        Ok(s) => s.code().unwrap_or(2),
        Err(_) => 2,
    };
    let v = std::fs::read(&summary).ok().and_then(|b| serde_json::from_slice(&b).ok()).unwrap_or(serde_json::Value::Null);
    if code != 0 && code != 1 || v.is_null() {
        eprintln!("HARNESS ERROR: the unoptimised-build batch ended with status {} (summary present: {})", code, !v.is_null());
        return (v, 2);
    }
    (v, code)
}

pub fn truncate(s: &str, n: usize) -> String {
    if s.len() <= n {
        s.to_string()
    } else {
        let mut e = n;
        while !s.is_char_boundary(e) {
            e -= 1;
        }
        format!("{}…", &s[..e])
    }
}

// ---------------------------------------------------------------------------
// replay
// ---------------------------------------------------------------------------

#[derive(Deserialize)]
struct ReplayFile {
    #[serde(default)]
    build: String,
    property: String,
    class: String,
    clause: String,
    scenario: Scenario,
    #[serde(default)]
    history_hash: String,
}

/// child side: execute one scenario file and print the verdict as JSON
pub fn exec_one(prop: &dyn Prop, path: &Path) -> i32 {
    let b = std::fs::read(path).expect("HARNESS: read replay");
    let rf: ReplayFile = serde_json::from_slice(&b).expect("HARNESS: parse replay");
    let (v, hist, hh) = crate::shrink::exec_caught(prop, &rf.scenario, true);
    let out = serde_json::json!({"violation": v, "history": hist, "history_hash": format!("{:016x}", hh)});
    println!("{}", out);
    0
}

pub fn replay_property(path: &Path) -> Option<String> {
    let b = std::fs::read(path).ok()?;
    let rf: ReplayFile = serde_json::from_slice(&b).ok()?;
    Some(rf.property)
}

/// parent side
pub fn replay(path: &Path) -> i32 {
    let b = match std::fs::read(path) {
        Ok(b) => b,
        Err(e) => {
            eprintln!("HARNESS ERROR: cannot read {}: {}", path.display(), e);
            return 2;
        }
    };
    let rf: ReplayFile = match serde_json::from_slice(&b) {
        Ok(r) => r,
        Err(e) => {
            eprintln!("HARNESS ERROR: cannot parse {}: {}", path.display(), e);
            return 2;
        }
    };
    let mut exe = std::env::current_exe().expect("HARNESS: current_exe");
    if rf.build == "unoptimised" && !unoptimised_build() {
        match unoptimised_binary() {
            Some(b) => exe = b,
            None => {
                eprintln!("HARNESS ERROR: {} was recorded by the unoptimised build, which is missing", path.display());
                return 2;
            }
        }
    }
    let mut child = Command::new(exe)
        .arg("exec-one")
        .arg(path)
        .stdin(Stdio::null())
        .stdout(Stdio::piped())
        .stderr(Stdio::null())
        .spawn()
        .expect("HARNESS: spawn");
    let t = Instant::now();
    let status = loop {
        match child.try_wait() {
            Ok(Some(s)) => break Some(s),
            Ok(None) => {
                if t.elapsed() > Duration::from_secs(HANG_SECS) {
                    let _ = child.kill();
                    let _ = child.wait();
                    break None;
                }
                std::thread::sleep(Duration::from_millis(10));
            }
            Err(_) => break None,
        }
    };
    let mut out = String::new();
    if let Some(mut so) = child.stdout.take() {
        use std::io::Read;
        let _ = so.read_to_string(&mut out);
    }
    match status {
        None => {
            println!("replay: process hang (recorded class {})", rf.class);
            println!("VIOLATION property={} replay={}", rf.property, path.display());
            1
        }
        Some(s) if !s.success() => {
            println!("replay: process died: {} (recorded class {})", s, rf.class);
            println!("VIOLATION property={} replay={}", rf.property, path.display());
            1
        }
        Some(_) => {
            let v: serde_json::Value = serde_json::from_str(out.trim()).unwrap_or(serde_json::Value::Null);
            if v.get("violation").map(|x| x.is_null()).unwrap_or(true) {
                println!("replay: no violation (recorded: {}:{})", rf.class, rf.clause);
                0
            } else {
                let class = v["violation"]["class"].as_str().unwrap_or("?");
                let clause = v["violation"]["clause"].as_str().unwrap_or("?");
                let same = class == rf.class && clause == rf.clause;
                let same_hash = v["history_hash"].as_str().unwrap_or("") == rf.history_hash;
                println!(
                    "replay: {}:{} ({} the recorded violation; history hash {})",
                    class,
                    clause,
                    if same { "same as" } else { "DIFFERENT from" },
                    if same_hash { "identical" } else { "differs" }
                );
                println!("  detail: {}", truncate(v["violation"]["detail"].as_str().unwrap_or(""), 800));
                println!("  history:{}", truncate(v["history"].as_str().unwrap_or(""), 800));
                println!("VIOLATION property={} replay={}", rf.property, path.display());
                1
            }
        }
    }
}
