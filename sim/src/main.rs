fn main(){ println!("hi"); }
