#![allow(dead_code)]
//! sml-sim: deterministic simulation with fault injection for sml-rs.
//!
//!   sml-sim check <ID> <quick|thorough>      run the batch of a property
//!   sml-sim replay <file>                    re-execute a replay file in a fresh process
//!   sml-sim selftest                         reference-model self tests
//!   sml-sim determinism [ID..]               determinism proof (1 vs N workers, twice)
//!   (internal) worker / exec-one

#[global_allocator]
static GLOBAL: alloc::SimAlloc = alloc::SimAlloc;

mod alloc;
mod core;
mod fe;
mod gen;
mod hexbytes;
mod obs;
mod props;
mod refenc;
mod rng;
mod runner;
mod scn;
mod shrink;
mod smlgen;
mod smlref;

use crate::core::Tier;
use std::path::PathBuf;

fn selftest() -> Result<(), String> {
    refenc::self_test()?;
    smlref::self_test()?;
    Ok(())
}

fn usage() -> i32 {
    eprintln!("usage: sml-sim check <ID> <quick|thorough> | replay <file> | selftest | determinism [ID..] | list");
    2
}

fn real_main() -> i32 {
    runner::install_panic_hook();
    let args: Vec<String> = std::env::args().collect();
    if args.len() < 2 {
        return usage();
    }
    match args[1].as_str() {
        "list" => {
            for p in props::all() {
                println!("{}", p.id());
            }
            0
        }
        "selftest" => match selftest() {
            Ok(()) => {
                println!("selftest ok");
                0
            }
            Err(e) => {
                eprintln!("HARNESS ERROR: selftest failed: {}", e);
                2
            }
        },
        "check" => {
            if args.len() < 4 {
                return usage();
            }
            let prop = match props::get(&args[2]) {
                Some(p) => p,
                None => {
                    eprintln!("HARNESS ERROR: unknown property {}", args[2]);
                    return 2;
                }
            };
            let tier = match Tier::parse(&args[3]) {
                Some(t) => t,
                None => return usage(),
            };
            if let Err(e) = selftest() {
                eprintln!("HARNESS ERROR: selftest failed: {}", e);
                return 2;
            }
            let opts = runner::CheckOpts {
                tier,
                seed: runner::seed_from_env(),
                workers: runner::workers_default(),
                dump_hashes: false,
                write_evidence: true,
                keep_outdir: std::env::var("VERIF_KEEP").is_ok(),
            };
            runner::check(prop, &opts).exit
        }
        "worker" => {
            // worker <ID> <tier> <seed> <shard> <nshards> <outdir> [--skip a,b] [--only i] [--dump-hashes]
            if args.len() < 8 {
                return usage();
            }
            let prop = props::get(&args[2]).expect("HARNESS: unknown property");
            let mut a = runner::WorkerArgs {
                tier: Tier::parse(&args[3]).expect("HARNESS: tier"),
                seed: args[4].parse().expect("HARNESS: seed"),
                shard: args[5].parse().expect("HARNESS: shard"),
                nshards: args[6].parse().expect("HARNESS: nshards"),
                outdir: PathBuf::from(&args[7]),
                skip: Vec::new(),
                only: None,
                dump_hashes: false,
            };
            let mut i = 8;
            while i < args.len() {
                match args[i].as_str() {
                    "--skip" => {
                        a.skip = args[i + 1].split(',').filter_map(|x| x.parse().ok()).collect();
                        i += 2;
                    }
                    "--only" => {
                        a.only = args[i + 1].parse().ok();
                        i += 2;
                    }
                    "--dump-hashes" => {
                        a.dump_hashes = true;
                        i += 1;
                    }
                    _ => return usage(),
                }
            }
            runner::worker(prop, &a)
        }
        "replay" => {
            if args.len() < 3 {
                return usage();
            }
            runner::replay(&PathBuf::from(&args[2]))
        }
        "exec-one" => {
            if args.len() < 3 {
                return usage();
            }
            let path = PathBuf::from(&args[2]);
            let pid = match runner::replay_property(&path) {
                Some(p) => p,
                None => return 2,
            };
            let prop = props::get(&pid).expect("HARNESS: unknown property in replay file");
            runner::exec_one(prop, &path)
        }
        "determinism" => {
            let ids: Vec<String> = if args.len() > 2 {
                args[2..].to_vec()
            } else {
                props::all().iter().map(|p| p.id().to_string()).collect()
            };
            determinism(&ids)
        }
        _ => usage(),
    }
}

/// 1 worker vs N workers, each twice: the sorted (run, history hash, verdict) lists must be identical
fn determinism(ids: &[String]) -> i32 {
    std::env::set_var("VERIF_RUNS_SCALE", std::env::var("VERIF_DET_SCALE").unwrap_or_else(|_| "0.02".into()));
    let mut bad = 0;
    for id in ids {
        let prop = match props::get(id) {
            Some(p) => p,
            None => {
                eprintln!("unknown property {}", id);
                return 2;
            }
        };
        let mut lists: Vec<(String, Vec<String>)> = Vec::new();
        for (label, workers) in [("w1-a", 1u64), ("w16-a", 16), ("w7-b", 7), ("w16-b", 16)] {
            let opts = runner::CheckOpts {
                tier: Tier::Quick,
                seed: runner::seed_from_env(),
                workers,
                dump_hashes: true,
                write_evidence: false,
                keep_outdir: true,
            };
            let rep = runner::check(prop, &opts);
            let mut lines = Vec::new();
            if let Ok(rd) = std::fs::read_dir(&rep.outdir) {
                for e in rd.flatten() {
                    if e.file_name().to_string_lossy().starts_with("hashes-") {
                        let s = std::fs::read_to_string(e.path()).unwrap_or_default();
                        lines.extend(s.lines().map(|l| l.to_string()));
                    }
                }
            }
            lines.sort_by_key(|l| l.split(' ').next().and_then(|x| x.parse::<u64>().ok()).unwrap_or(0));
            let _ = std::fs::remove_dir_all(&rep.outdir);
            lists.push((label.to_string(), lines));
        }
        let base = &lists[0].1;
        for (label, l) in &lists[1..] {
            if l != base {
                bad += 1;
                let first = base.iter().zip(l.iter()).find(|(a, b)| a != b);
                println!("DETERMINISM FAILURE {}: {} differs from {} ({} vs {} lines) first diff: {:?}", id, label, lists[0].0, l.len(), base.len(), first);
            }
        }
        println!("determinism {}: {} runs x 4 executions compared: {}", id, base.len(), if bad == 0 { "identical" } else { "DIFFERENT" });
    }
    if bad > 0 {
        2
    } else {
        0
    }
}

fn main() {
    // everything runs on one thread with a stack that holds the large ArrayBuf<N> instantiations
    // (up to N = 300 000, several copies in an unoptimised build) but is small enough for
    // recursion proportional to the input length to run out of it
    let args: Vec<String> = std::env::args().collect();
    let id = match args.get(1).map(|s| s.as_str()) {
        Some("check") | Some("worker") => args.get(2).cloned(),
        Some("exec-one") | Some("replay") => args.get(2).and_then(|p| runner::replay_property(&PathBuf::from(p))),
        _ => None,
    };
    // the parsers never see a fixed-size buffer, so their unoptimised batch runs on a stack of
    // the size an ordinary main thread has
    let stack = if runner::unoptimised_build() && id.as_deref() == Some("C06") { 8 << 20 } else { runner::STACK_BYTES };
    runner::STACK_USED.store(stack, std::sync::atomic::Ordering::Relaxed);
    let h = std::thread::Builder::new()
        .stack_size(stack)
        .spawn(real_main)
        .expect("spawn main thread");
    let code = h.join().unwrap_or(2);
    std::process::exit(code);
}
