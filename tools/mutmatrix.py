#!/usr/bin/env python3
"""Run every mutation of /verif/mutations/index.json (or the seeded changes with --seeded)
through the mutation lab against all claimed quick checks; write the detection matrix."""
import json, subprocess, sys, os, glob
IDS = ["C01","C02","C04","C05","C06","C07","C08","C09","C10","C11","C13","C14","C15","C16","C17","C18"]
seeded = "--seeded" in sys.argv
# --expected-only: re-run only the checks of the properties a change is expected to break (no test
# suite) and merge the verdicts into the existing row
expected_only = "--expected-only" in sys.argv
only = [a for a in sys.argv[1:] if not a.startswith("--")]
if seeded:
    items = []
    for d in sorted(glob.glob("/verif/seeded/*/")):
        meta = json.load(open(d + "meta.json"))
        items.append({"name": os.path.basename(d.rstrip("/")), "patch": d + "patch.diff", "expected": [meta["property"]]})
    out = "/verif/seeded/results.json"
else:
    items = [{"name": m["name"], "patch": f"/verif/mutations/{m['name']}.diff", "expected": m["expected_to_be_caught_by"]} for m in json.load(open("/verif/mutations/index.json"))]
    out = "/verif/mutations/results.json"
try:
    results = json.load(open(out))
except Exception:
    results = {}
for it in items:
    if only and it["name"] not in only:
        continue
    if expected_only:
        r = subprocess.run(["/verif/tools/mutlab.sh", "run", it["patch"]] + it["expected"], capture_output=True, text=True)
        try:
            res = json.load(open(out)).get(it["name"]) or {"tests": None, "checks": {}, "signatures": {}}
        except Exception:
            res = {"tests": None, "checks": {}, "signatures": {}}
        for k in it["expected"]:
            res["signatures"].pop(k, None)
        res["expected_rerun_at"] = subprocess.run(["git", "-C", "/verif", "rev-parse", "--short", "HEAD"], capture_output=True, text=True).stdout.strip()
    else:
        r = subprocess.run(["/verif/tools/mutlab.sh", "run", it["patch"], "--tests"] + IDS, capture_output=True, text=True)
        res = {"tests": None, "checks": {}, "signatures": {}}
        res["full_row_at"] = subprocess.run(["git", "-C", "/verif", "rev-parse", "--short", "HEAD"], capture_output=True, text=True).stdout.strip()
    for line in r.stdout.splitlines():
        parts = line.split(" ", 2)
        if parts[0] == "TESTS":
            res["tests"] = parts[1]
        elif parts[0] in IDS:
            res["checks"][parts[0]] = int(parts[1])
            if len(parts) > 2 and parts[2]:
                res["signatures"][parts[0]] = parts[2]
        else:
            res.setdefault("other", []).append(line)
    caught = sorted(k for k, v in res["checks"].items() if v == 1)
    broken = [k for k, v in res["checks"].items() if v not in (0, 1)]
    res["caught_by"] = caught
    res["harness_errors"] = broken
    res["expected"] = it["expected"]
    res["expected_missed"] = [p for p in it["expected"] if p not in caught]
    # several matrix processes (one per lab) may run side by side: merge into the file
    try:
        results = json.load(open(out))
    except Exception:
        results = {}
    results[it["name"]] = res
    tmp = out + ".tmp%d" % os.getpid()
    json.dump(results, open(tmp, "w"), indent=1)
    os.replace(tmp, out)
    print(it["name"], "tests:", res["tests"], "caught by:", caught, "MISSED expected:" if res["expected_missed"] else "", res["expected_missed"] or "", "HARNESS-ERR:" + str(broken) if broken else "", flush=True)
