#!/bin/bash
# Confirm a seeded change independently in its scratch worktree, then store it under /verif/seeded/<name>/.
# usage: seedverify.sh <name> <property> <seed dir> <worktree> [cargo feature args for the demo]
set -u
NAME=$1; PROP=$2; SD=$3; WT=$4; shift 4
FEAT="$*"
cd $WT || exit 2
git checkout -q -- . ; git clean -qfd tests src
git apply --check $SD/patch.diff || { echo "patch does not apply"; exit 1; }
cp $SD/demo.rs tests/demo_seed.rs
# 1. unchanged code: demo passes
if cargo test --offline $FEAT --test demo_seed >/tmp/sv_$NAME.clean.log 2>&1; then CLEAN=pass; else CLEAN=FAIL; fi
git apply $SD/patch.diff
# 2. changed code: demo fails, suite passes
if cargo test --offline $FEAT --test demo_seed >/tmp/sv_$NAME.patched.log 2>&1; then PATCHED=PASS; else PATCHED=fail; fi
rm tests/demo_seed.rs
if cargo test --workspace --no-fail-fast --offline >/tmp/sv_$NAME.suite.log 2>&1; then SUITE=pass; else SUITE=FAIL; fi
NTESTS=$(grep -E "^test result" /tmp/sv_$NAME.suite.log | awk '{s+=$4} END {print s}')
git checkout -q -- . ; git clean -qfd tests src
echo "$NAME: demo on unchanged code: $CLEAN; demo with change: $PATCHED; existing suite with change: $SUITE ($NTESTS tests)"
if [ $CLEAN = pass ] && [ $PATCHED = fail ] && [ $SUITE = pass ]; then
    mkdir -p /verif/seeded/$NAME
    cp $SD/patch.diff /verif/seeded/$NAME/patch.diff
    cp $SD/demo.rs /verif/seeded/$NAME/demo.rs
    [ -f $SD/notes.md ] && cp $SD/notes.md /verif/seeded/$NAME/notes.md
    python3 - "$NAME" "$PROP" "$NTESTS" "$FEAT" <<'PY'
import json,sys
name,prop,nt,feat=sys.argv[1:5]
p=f"/verif/seeded/{name}/meta.json"
try: m=json.load(open(p))
except Exception: m={}
m.update({"name":name,"property":prop,"origin":"independent sub-agent given only the property text and a scratch worktree",
 "confirmed":{"demo_on_unchanged_code":"pass","demo_with_change":"fail","existing_suite_with_change":f"pass ({nt} tests incl. doctests)",
   "how":f"tools/seedverify.sh in a scratch worktree: cargo test --offline {feat} --test demo_seed (before / after git apply), cargo test --workspace --offline"}})
try:
    lines=[l.strip().lstrip('#').strip() for l in open(f"/verif/seeded/{name}/notes.md") if l.strip()]
    m.setdefault("what", lines[0][:400]); m.setdefault("needs", lines[1][:400] if len(lines)>1 else "")
except Exception:
    pass
json.dump(m,open(p,"w"),indent=1)
PY
    echo KEPT
else
    echo REJECTED
fi
