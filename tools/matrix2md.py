#!/usr/bin/env python3
"""Render mutations/results.json and seeded/results.json as markdown tables (stdout)."""
import json, os
IDS = ["C01","C02","C04","C05","C06","C07","C08","C09","C10","C11","C13","C14","C15","C16","C17","C18"]
def table(path, index):
    if not os.path.exists(path):
        return "(not run yet)\n"
    r = json.load(open(path))
    out = "| change | breaks | existing tests | caught by quick checks |\n|---|---|---|---|\n"
    for name in sorted(r):
        v = r[name]
        what = index.get(name, "")
        caught = ", ".join(v["caught_by"]) or "**none**"
        miss = (" — expected " + ", ".join(v["expected_missed"]) + " **missed**") if v["expected_missed"] else ""
        out += f"| `{name}` {what} | {', '.join(v['expected'])} | {v['tests']} | {caught}{miss} |\n"
    return out
idx = {m["name"]: "— " + m["what"] for m in json.load(open("/verif/mutations/index.json"))}
print("### Own mutations (/verif/mutations)\n")
print(table("/verif/mutations/results.json", idx))
sidx = {}
import glob
for d in glob.glob("/verif/seeded/*/meta.json"):
    m = json.load(open(d))
    t = (m.get("needs") or m.get("what") or "").replace("|", "/").replace("Trigger: ", "")
    if len(t) > 230:
        t = t[:230].rsplit(" ", 1)[0] + " …"
    sidx[m["name"]] = "— " + t
print("### Seeded changes from independent sub-agents (/verif/seeded)\n")
print(table("/verif/seeded/results.json", sidx))
