#!/usr/bin/env python3
"""Regenerate /verif/MANIFEST.json from the table below (run from /verif)."""
import json

CLAIMED = {
 "C01": ("exploration", "LINK", "6", "seeded simulation of sender -> perfect link -> receiver: exactly-once delivery oracle (history == [Ok(p)] at the frame's last byte) over both real encoders x six front-ends x buffer kinds, plus a directed tail/alignment corpus",
         "decoder and encoders are the real code; the oracle needs no model besides equality with the payload sent"),
 "C02": ("exploration", "LINK", "6", "seeded simulation with link faults and a Byzantine sender (checksums re-sealed for wrong framings); safety oracle against the reference encoder: every delivered payload is preceded by exactly its canonical frame",
         "refenc + bitwise CRC are the harness's reading of the specification; crashes are left to C05"),
 "C05": ("exploration", "LINK", "6", "seeded simulation over call histories (push/finalize/reset), long runs (> 2^16), tiny buffers, failing allocator, reader polling past end; oracle: no panic (overflow checks on) / abort / hang + usability probe after errors",
         "overflow-checks=on build; child-process isolation for aborts and hangs"),
 "C07": ("exploration", "LINK", "6", "sender-side simulation: both encoders vs. the reference encoder, fixed buffers of every ladder capacity around the frame length, allocation failure, polling past the end with a non-fused inner iterator",
         "refenc is the harness's reading of the specification text"),
 "C08": ("exploration", "LINK", "6", "seeded simulation of nine idle-decoder histories x noise classes satisfying the property's side condition x sender crash at legal cut points; oracle: exact result history from the idle point",
         "noise is generated under the side condition and re-checked at run time"),
 "C14": ("exploration", "LINK", "6", "twin simulation: at every boundary event a freshly constructed decoder receives the same continuation; step-by-step equality; plus concatenation split on the batch function",
         "metamorphic; independent oracles in C02/C08/C17"),
 "C15": ("exploration", "LINK", "6", "replica agreement: six receivers x two buffer kinds (plus a filtered-iterator source, a reused push decoder and an io::Read interrupted between bytes) tap the same faulty link; logs must agree modulo the documented end-of-input representation",
         "metamorphic; independent oracles in C02/C08/C17"),
 "C16": ("exploration", "LINK", "6", "capacity exhaustion simulation: every ladder capacity 0..|m|+1 for each payload, three front-end families, default 8 KiB buffer; exact-fit delivery, OOM below, fresh-twin and next-frame delivery after OOM",
         "capacities come from a compiled ladder; payload lengths are chosen on it"),
 "C17": ("exploration", "LINK", "6", "byte-ledger oracle over simulated streams with link faults, API calls and source faults (WouldBlock / Interrupted / Other / transient EOF), noise runs beyond 2^16: reported ranges must tile the input",
         "positions are the harness's own count of bytes handed to the code"),
 "C18": ("exploration", "BUF", "6", "operation-history refinement of ArrayBuf<N> (and Vec<u8> under allocation failure) against a capacity-bounded vector model, with equality / Debug compared across different histories",
         "N from a fixed set of 12 capacities"),
 "C04": ("fault_enumeration", "FILE", "6", "Byzantine-meter simulation against an independent reference SML reader: directed enumeration of every single-byte truncation and single-bit flip of a base set (with and without re-sealed CRC) plus seeded multi-fault search",
         "the reference reader is the harness's reading of the supported SML subset (DESIGN 5.1)"),
 "C06": ("exploration", "FILE", "6", "Byzantine length inflation (2^4 .. >= 2^32) at every TLF position under an accounting allocator: no panic/abort/hang, bytes requested <= 256*|x|+4096, zero allocations in the streaming parser",
         "requests >= 1 GiB are served from lazily committed mmap so that they are measured instead of killing the process"),
 "C09": ("exploration", "FILE", "6", "parser-pair agreement on every valid and Byzantine payload: same file / same error variant; event protocol Start(n) Entry^n End checked on the recorded event history",
         "metamorphic; C04 carries the independent oracle"),
 "C13": ("exploration", "FILE", "6", "bounded-liveness check of the streaming parser after faults in the middle of messages: at most |x|+1 items, at most one Err, then None on every further poll; directed corpus incl. messages beyond 2^16 bytes and elements that end exactly 2^8 / 2^16 bytes behind an earlier boundary",
         "the run is cut at the budget, so non-termination is a finding, not a hang"),
 "C10": ("exploration", "E2E", "6", "end-to-end simulation meter -> real encoder -> noisy link -> source -> SmlReader -> app choosing target type and read/next per call; refinement against the transmitted files (also with a static buffer too small for some of them: the files that fit are still yielded) and against hand composition Decoder+parser",
         "expected files come from the reference SML reader applied to the generated wire bytes (self-checked against the abstract model)"),
 "C11": ("fault_enumeration", "E2E", "6", "source-fault simulation on io::Read and embedded-hal sources: directed enumeration of every position x fault kind (single) and all position pairs (double) on three base streams, then seeded multi-fault vectors; expected history assembled from fault-free sub-runs + byte ledger",
         "Interrupted transparency is read_exact's documented behaviour; EOF is modelled as sticky at the end and as a transient fault inside the stream"),
}

NA = {
 "C03": "pure function of a well-formed input on a fault-free path: no schedule, fault, call history or memory condition the simulator decides can change the outcome; generating inputs would be input generation in simulator vocabulary (exercised as a by-product by C10's fault-free oracle and C04's reference reader, not claimed)",
 "C12": "pure function of at most 12 input bytes whose quantifier asks for exhaustive enumeration of an input space (2^24 sequences): that is enumeration / model checking, not seeded search over schedules and faults; nothing in it depends on a schedule, fault or history",
}

import subprocess, sys
have = subprocess.run(["/verif/sim/target/release/sml-sim", "list"], capture_output=True, text=True).stdout.split()
props = [json.loads(l) for l in open("/verif/properties.jsonl")]
checks = []
na = []
for p in props:
    i = p["id"]
    if i in NA:
        na.append({"property_id": i, "reason": NA[i]})
    elif i in CLAIMED and i in have:
        lvl, eng, ref, text, note = CLAIMED[i]
        checks.append({
            "property_id": i,
            "quick_cmd": f"/verif/check {i} quick",
            "thorough_cmd": f"/verif/check {i} thorough",
            "evidence_file": f"/verif/evidence/{i}.json",
            "replay_cmd_template": f"/verif/check {i} --replay {{path}}",
            "engine": eng,
            "level_claimed": {"category": lvl, "text": text, "design_ref": f"DESIGN.md section {ref} ({i})"},
            "level_note": note,
            "technique": "deterministic simulation with fault injection (seeded search over schedules and fault sequences, reference-model oracle, minimised replay)",
        })
    else:
        na.append({"property_id": i, "reason": "check not built yet (work in progress); will be claimed once the engine exists"})
m = {
 "version": 1,
 "setup_cmd": "cd /verif/sim && CARGO_NET_OFFLINE=true cargo build --release --offline && CARGO_NET_OFFLINE=true cargo build --offline",
 "hooks": {
   "guard": "sml_rs_verif",
   "enable": "no hook exists: every seam is public API (io::Read, embedded-hal serial::Read, iterator / slice sources, ArrayBuf<N>, the harness binary's global allocator); checks build /repo as a path dependency with features std,alloc,nb,embedded-hal-02",
   "baseline_off_cmd": "cd /repo && cargo test --workspace --no-fail-fast --offline",
   "source_commits": [],
   "add_only": True,
 },
 "engines": [
   {"name": "LINK", "path": "/verif/sim/src/props", "serves_properties": ["C01","C02","C05","C07","C08","C14","C15","C16","C17"], "kind_free_text": "transport-only simulation: meter payloads -> real encoder -> faulty link -> simulated source -> decoder front-end under test -> recorded history"},
   {"name": "FILE", "path": "/verif/sim/src/props", "serves_properties": ["C04","C06","C09","C13"], "kind_free_text": "Byzantine meter: abstract SML files -> wire encoder -> structural / byte faults with and without re-sealed CRC -> both parsers under an accounting allocator"},
   {"name": "E2E", "path": "/verif/sim/src/props", "serves_properties": ["C10","C11"], "kind_free_text": "everything composed through SmlReader with source faults and an application task choosing calls and target types"},
   {"name": "BUF", "path": "/verif/sim/src/props/c18.rs", "serves_properties": ["C18"], "kind_free_text": "operation histories on the storage device (ArrayBuf<N>, Vec<u8>) against a bounded-vector model"},
 ],
 "checks": checks,
 "not_applicable": na,
 "notes": "One binary (/verif/sim, Rust, path dependency on /repo) decides every claimed property; /verif/check rebuilds it from /repo's working tree on every invocation. VERIF_SEED selects the batch (default 20261001); run counts per tier are fixed, so a (seed, tier) pair is the same batch on any machine and any worker count. Genuine defects found and repaired are listed in /verif/known_findings.json (fixed entries suppress nothing).",
}
json.dump(m, open("/verif/MANIFEST.json", "w"), indent=1)
print("claimed:", [c["property_id"] for c in checks])
print("not claimed:", [n["property_id"] for n in na])
