#!/usr/bin/env python3
"""Generate /verif/mutations/*.diff: deliberate property-breaking changes (sensitivity proof).
Each is made in a scratch worktree of /repo (argument 1), never in /repo itself."""
import subprocess, sys, json, os
wt = sys.argv[1]
M = [
 ("M01-pad-counter-saturates", "src/transport/encode.rs", ["C01","C07"],
  [("        self.0 = self.0.wrapping_sub(1);", "        self.0 = self.0.saturating_add(1);"),
   ("        self.0 & 0x3", "        (4 - (self.0 & 0x3)) & 0x3")],
  "iterator encoder derives the pad count from a saturating 8-bit counter: wrong padding for payloads of 255 bytes and more"),
 ("M02-reset-keeps-zero-cache", "src/transport/decode.rs", ["C02","C14"],
  [("        self.raw_msg_len = 0;\n        self.zero_cache = 0;\n        num_discarded", "        self.raw_msg_len = 0;\n        num_discarded")],
  "reset() no longer clears the withheld-zero counter: stale zeros leak into the next frame / satisfy its padding check"),
 ("M03-pad-gt-3-accepted", "src/transport/decode.rs", ["C02"],
  [("                            || padding_too_large\n", "")],
  "the pad-count <= 3 check is dropped: 4 zero bytes + pad count 4 is accepted (non-canonical frame)"),
 ("M04-alignment-mod-2", "src/transport/decode.rs", ["C02"],
  [("let misaligned = self.raw_msg_len % 4 != 0;", "let misaligned = self.raw_msg_len % 2 != 0;")],
  "end sequence accepted at 2-byte alignment"),
 ("M05-message-arity-ge-6", "src/parser/complete.rs", ["C04","C09"],
  [("if tlf.ty != super::tlf::Ty::ListOf || tlf.len != 6 {", "if tlf.ty != super::tlf::Ty::ListOf || tlf.len < 6 {")],
  "allocating parser accepts a message list TLF declaring more than 6 elements"),
 ("M06-end-marker-unchecked", "src/parser/common.rs", ["C04"],
  [("        if b != 0x00 {\n            return Err(ParseError::MsgEndMismatch);\n        }\n", "        let _ = b;\n")],
  "the 0x00 end-of-message marker is consumed but not checked"),
 ("M07-streaming-crc-low-byte", "src/parser/streaming.rs", ["C04","C09"],
  [("                if digest != crc {", "                if digest as u8 != crc as u8 {")],
  "streaming parser compares only the low byte of the message CRC"),
 ("M08-encoder-restarts-after-none", "src/transport/encode.rs", ["C07"],
  [("                    8 => {\n                        return None;\n                    }", "                    8 => {\n                        self.state = Init(0);\n                        return None;\n                    }")],
  "iterator encoder rewinds after returning None: polling again yields a second start sequence"),
 ("M09-next-hides-pending-bytes", "src/transport/decoder_reader.rs", ["C10","C11","C15","C17"],
  [("            Err(ReadDecodedError::IoErr(e, 0)) if e.is_eof() => None,", "            Err(ReadDecodedError::IoErr(e, _)) if e.is_eof() => None,")],
  "next() returns None at end of input even when partial data was pending (count lost)"),
 ("M10-wouldblock-resets", "src/transport/decoder_reader.rs", ["C11"],
  [("                        ErrKind::WouldBlock => 0,", "                        ErrKind::WouldBlock => {\n                            self.decoder.reset();\n                            0\n                        }")],
  "a would-block condition resets the decoder: the frame in flight is lost"),
 ("M11-reset-ignores-noise", "src/transport/decode.rs", ["C17","C11"],
  [("            DecodeState::Done => 0,\n            _ => self.raw_msg_len,", "            DecodeState::Done | DecodeState::LookingForMessageStart { .. } => 0,\n            _ => self.raw_msg_len,")],
  "reset() (and the count attached to I/O errors) forgets noise bytes skipped while looking for a start sequence"),
 ("M12-done-keeps-counters", "src/transport/decode.rs", ["C14","C17"],
  [("                // reset and let's go again\n                self.reset(buf);", "                // reset and let's go again\n                buf.clear();\n                self.state = LookingForMessageStart {\n                    num_discarded_bytes: 0,\n                    num_init_seq_bytes: 0,\n                };")],
  "after a delivered frame only the state is reset, not the byte counter: later reset()/finalize() counts include the delivered frame"),
 ("M13-decode-forgets-finalize", "src/transport/decode.rs", ["C15"],
  [("    if let Some(e) = decoder.finalize() {\n        res.push(Err(e));\n    }\n    res", "    res")],
  "decode() no longer reports leftover bytes at end of input"),
 ("M14-flush-ignores-full-buffer", "src/transport/decode.rs", ["C16","C02"],
  [("        for _ in 0..self.zero_cache {\n            self.push_inner(buf, 0)?;\n        }", "        for _ in 0..self.zero_cache {\n            let _ = buf.push(0);\n        }")],
  "withheld zeros are flushed without checking for a full buffer: a payload ending in zeros is silently shortened"),
 ("M15-partial-start-not-counted", "src/transport/decode.rs", ["C17","C08"],
  [("*num_discarded_bytes += 1 + usize::from(*num_init_seq_bytes) - usize::from(keep);", "*num_discarded_bytes += 1;")],
  "bytes of an abandoned partial start sequence are not counted as discarded"),
 ("M16-truncate-grows", "src/util.rs", ["C18"],
  [("        self.num_elements = self.num_elements.min(len);", "        self.num_elements = len.min(N);")],
  "ArrayBuf::truncate(k) with k > len grows the buffer (stale bytes become visible)"),
 ("M17-extend-partial-write", "src/util.rs", ["C18"],
  [("        if self.num_elements + other.len() > N {\n            return Err(OutOfMemory);\n        }\n        self.buffer[self.num_elements..][..other.len()].copy_from_slice(other);\n        self.num_elements += other.len();\n        Ok(())",
    "        let n = other.len().min(N - self.num_elements);\n        self.buffer[self.num_elements..][..n].copy_from_slice(&other[..n]);\n        self.num_elements += n;\n        if n < other.len() {\n            return Err(OutOfMemory);\n        }\n        Ok(())")],
  "a failing extend_from_slice appends the part that fits"),
 ("M18-holley-time-any-width", "src/parser/common.rs", ["C04"],
  [("        (tlf.ty == Ty::ListOf && tlf.len == 2) || *tlf == TypeLengthField::new(Ty::Unsigned, 4)", "        (tlf.ty == Ty::ListOf && tlf.len == 2) || (tlf.ty == Ty::Unsigned && tlf.len <= 4)")],
  "the vendor time workaround accepts unsigned TLFs shorter than 4 bytes and then reads 4 bytes"),
 ("M19-signed-fill-from-last-byte", "src/parser/num.rs", ["C04"],
  [("        let is_negative = bytes[0] > 0x7F;", "        let is_negative = bytes[bytes.len() - 1] > 0x7F;")],
  "sign extension of shortened integers looks at the last byte instead of the first"),
 ("M20-literal-escape-not-in-crc", "src/transport/decode.rs", ["C01"],
  [("                        self.crc.update(&payload);\n\n                        // push escape sequence bytes", "                        // push escape sequence bytes")],
  "decoder leaves the doubled escape out of the CRC (frames containing 1b1b1b1b are rejected)"),
 ("M21-list-count-nibble-only", "src/parser/streaming.rs", ["C09","C04"],
  [("            num_vals: tlf.len,", "            num_vals: tlf.len & 0xff,")],
  "streaming parser keeps only the low 8 bits of the list length"),
 ("M22-opt-marker-any-list", "src/parser/mod.rs", ["C04"],
  [("        if let Some(0x01u8) = input.first() {", "        if let Some(0x01u8 | 0x00u8) = input.first() {")],
  "a 0x00 byte is also taken as 'optional field absent'"),
 ("M23-done-recursion-without-reset", "src/transport/decode.rs", ["C05"],
  [("                // reset and let's go again\n                self.reset(buf);\n                return self.push_byte(buf, b);", "                // reset and let's go again\n                return self.push_byte(buf, b);")],
  "after a delivered frame the next byte recurses without leaving the Done state: unbounded recursion (process abort) - exercises the crash attribution path"),
 ("M24-invalid-esc-spins", "src/transport/decode.rs", ["C05"],
  [("                        // invalid escape sequence\n\n                        self.reset(buf);", "                        // invalid escape sequence\n                        #[allow(clippy::empty_loop)]\n                        while payload[0] == 0x02 {}\n                        self.reset(buf);")],
  "an invalid escape sequence starting with 02 makes the decoder spin forever - exercises the hang watchdog"),
 ("M25-streaming-parser-allocates", "src/parser/streaming.rs", ["C06"],
  [("    pub fn new(input: &'i [u8]) -> Self {\n        Parser {", "    pub fn new(input: &'i [u8]) -> Self {\n        #[cfg(feature = \"alloc\")]\n        if input.len() > 300 {\n            let scratch: alloc::vec::Vec<u8> = input.to_vec();\n            core::hint::black_box(&scratch);\n        }\n        Parser {")],
  "the streaming parser makes a heap copy of inputs longer than 300 bytes"),
 ("M26-arraybuf-push-off-by-one", "src/util.rs", ["C18","C16"],
  [("        if self.num_elements == N {\n            Err(OutOfMemory)\n        } else {", "        if self.num_elements + 1 >= N && N > 64 {\n            Err(OutOfMemory)\n        } else {")],
  "ArrayBuf::push refuses the last slot of buffers larger than 64 bytes"),
 ("M27-list-end-one-early", "src/parser/streaming.rs", ["C09"],
  [("                    self.pending_list_entries = u64::from(glr.num_vals) + 2;", "                    self.pending_list_entries = u64::from(glr.num_vals) + 2 - u64::from(glr.num_vals == 16);")],
  "for a list of exactly 16 entries the streaming parser expects one entry fewer (TLF boundary case)"),
 ("M28-file-target-swallows-discarded", "src/lib.rs", ["C10"],
  [("    fn parse_from(value: ReadDecodedRes<'i, ReadErr>) -> Result<Self, Self::Error> {\n        Ok(parse(value?)?)\n    }", "    fn parse_from(value: ReadDecodedRes<'i, ReadErr>) -> Result<Self, Self::Error> {\n        match value {\n            Err(ReadDecodedError::DecodeErr(DecodeErr::DiscardedBytes(n))) if n < 4 => Ok(parse(&[])?),\n            v => Ok(parse(v?)?),\n        }\n    }")],
  "reading a File swallows a discarded-bytes report of fewer than 4 bytes and returns an empty file instead"),
 ("M29-eh-source-wouldblock-as-other", "src/util.rs", ["C11"],
  [("            nb::Error::WouldBlock => ErrKind::WouldBlock,\n            _ => ErrKind::Other,", "            nb::Error::WouldBlock => ErrKind::Other,\n            _ => ErrKind::Other,")],
  "the embedded-hal source classifies would-block as a hard error (decoder reset on every idle poll)"),
 ("M30-crc-field-one-byte-rejected", "src/parser/complete.rs", ["C09"],
  [("        let (input, crc) = u16::parse(input)?;\n        let (input, _) = EndOfSmlMessage::parse(input)?;\n\n        // validate crc16", "        if input.first() == Some(&0x62) {\n            return Err(ParseError::CrcMismatch);\n        }\n        let (input, crc) = u16::parse(input)?;\n        let (input, _) = EndOfSmlMessage::parse(input)?;\n\n        // validate crc16")],
  "the allocating parser rejects the (legal) one-byte CRC field"),
]
os.makedirs("/verif/mutations", exist_ok=True)
index = []
for name, path, props, edits, what in M:
    subprocess.run(["git", "-C", wt, "checkout", "-q", "--", "."], check=True)
    p = os.path.join(wt, path)
    s = open(p).read()
    for old, new in edits:
        if old not in s:
            print("!! pattern not found", name, repr(old[:60]))
            sys.exit(1)
        s = s.replace(old, new, 1)
    open(p, "w").write(s)
    d = subprocess.run(["git", "-C", wt, "diff"], capture_output=True, text=True, check=True).stdout
    open(f"/verif/mutations/{name}.diff", "w").write(d)
    index.append({"name": name, "file": path, "expected_to_be_caught_by": props, "what": what})
subprocess.run(["git", "-C", wt, "checkout", "-q", "--", "."], check=True)
json.dump(index, open("/verif/mutations/index.json", "w"), indent=1)
print(len(index), "mutations written")
