#!/bin/bash
# Mutation lab: run the quick checks against a patched scratch copy of felixwrt/sml-rs
# without touching /repo.  Layout (all under /tmp/mutlab, removed with `mutlab.sh clean`):
#   repo/  git worktree of /repo HEAD      sim/  copy of /verif/sim pointing at it      out/  evidence + replays
# usage: mutlab.sh run <patch.diff> [--tests] <ID> [<ID> ...]     -> prints "<ID> <exit>" per check
#        mutlab.sh clean
set -u
LAB=${MUTLAB:-/tmp/mutlab}
case "${1:-}" in
clean)
    git -C /repo worktree remove --force $LAB/repo 2>/dev/null
    rm -rf $LAB
    exit 0 ;;
run) ;;
*) echo "usage: $0 run <patch> [--tests] <ID>.. | clean" >&2; exit 2 ;;
esac
PATCH=$2; shift 2
TESTS=0
if [ "${1:-}" = "--tests" ]; then TESTS=1; shift; fi
mkdir -p $LAB/out
if [ ! -d $LAB/repo ]; then git -C /repo worktree add -q --detach $LAB/repo HEAD || exit 2; fi
git -C $LAB/repo checkout -q --detach "$(git -C /repo rev-parse HEAD)" 2>/dev/null
git -C $LAB/repo checkout -q -- . ; git -C $LAB/repo clean -qfd tests src 2>/dev/null
rsync -a --delete --exclude target --exclude build.log ${SIMSRC:-/verif/sim}/ $LAB/sim/
sed -i "s#path = \"/repo\"#path = \"$LAB/repo\"#" $LAB/sim/Cargo.toml
if [ "$PATCH" != "none" ]; then
    git -C $LAB/repo apply "$PATCH" || { echo "PATCH-DOES-NOT-APPLY"; exit 2; }
fi
if [ $TESTS = 1 ]; then
    if (cd $LAB/repo && timeout 600 cargo test --workspace --no-fail-fast --offline >$LAB/out/tests.log 2>&1); then echo "TESTS pass"; else echo "TESTS FAIL"; fi
fi
(cd $LAB/sim && CARGO_NET_OFFLINE=true cargo build --release --offline >$LAB/out/build.log 2>&1) || { echo "BUILD-FAILED"; tail -20 $LAB/out/build.log; exit 2; }
# the unoptimised build that repeats part of the totality batches (only if this version of the simulator has one)
NEEDDEV=0
for P in "$@"; do case "$P" in C05|C06) NEEDDEV=1 ;; esac; done
if [ $NEEDDEV = 0 ]; then
    :
elif grep -q "profile.dev" $LAB/sim/Cargo.toml; then
    (cd $LAB/sim && CARGO_NET_OFFLINE=true cargo build --offline >$LAB/out/build-dev.log 2>&1) || { echo "BUILD-FAILED (dev)"; tail -20 $LAB/out/build-dev.log; exit 2; }
else
    rm -rf $LAB/sim/target/debug
fi
for P in "$@"; do
    VERIF_ROOT=$LAB/out ${VERIF_SEED:+VERIF_SEED=$VERIF_SEED} $LAB/sim/target/release/sml-sim check $P quick >$LAB/out/$P.log 2>&1
    echo "$P $? $(grep -m1 -o 'violation \[[^]]*\]' $LAB/out/$P.log)"
done
git -C $LAB/repo checkout -q -- .
